#!/bin/bash
# (re)creates the must-fail and must-pass patches of C03
cd "$(dirname "$0")"
f=pkg/cdi/container-edits.go
./mkpatch.sh C03-sort-not-stable $f 's.replace("sort.Stable(orderedMounts(mounts))","sort.Sort(orderedMounts(mounts))")'
./mkpatch.sh C03-uid-ge-zero $f 's.replace("if uid := spec.Process.User.UID; uid > 0 {","if uid := spec.Process.User.UID; uid >= 0 {")'
./mkpatch.sh C03-drop-remove-device $f 's.replace("\t\tspecgen.RemoveDevice(dev.Path)\n","")'
./mkpatch.sh C03-drop-remove-mount $f 's.replace("\t\t\tspecgen.RemoveMount(m.ContainerPath)\n","")'
./mkpatch.sh C03-default-access-rw $f 's.replace("access = \"rwm\"","access = \"rw\"")'
./mkpatch.sh C03-cgroup-rule-for-fifo $f 's.replace("if dev.Type == \"b\" || dev.Type == \"c\" {","if dev.Type == \"b\" || dev.Type == \"c\" || dev.Type == \"p\" {")'
./mkpatch.sh C03-swap-major-minor pkg/cdi/oci.go 's.replace("\t\tMajor:    d.Major,\n\t\tMinor:    d.Minor,","\t\tMajor:    d.Minor,\n\t\tMinor:    d.Major,")'
./mkpatch.sh C03-swap-source-destination pkg/cdi/oci.go 's.replace("\t\tSource:      m.HostPath,\n\t\tDestination: m.ContainerPath,","\t\tSource:      m.ContainerPath,\n\t\tDestination: m.HostPath,")'
./mkpatch.sh C03-less-or-equal $f 's.replace("return m.parts(i) < m.parts(j)","return m.parts(i) <= m.parts(j)")'
./mkpatch.sh C03-skip-sort $f 's.replace("\t\tsortMounts(&specgen)\n","")'
./mkpatch.sh C03-poststop-to-poststart $f 's.replace("\t\tcase PoststopHook:\n\t\t\tspecgen.AddPostStopHook(ociHook)","\t\tcase PoststopHook:\n\t\t\tspecgen.AddPostStartHook(ociHook)")'
./mkpatch.sh C03-createcontainer-to-startcontainer $f 's.replace("spec.Hooks.CreateContainer = append(spec.Hooks.CreateContainer, ociHook)","spec.Hooks.StartContainer = append(spec.Hooks.StartContainer, ociHook)")'
./mkpatch.sh C03-gid-zero-not-skipped $f 's.replace("\t\tif additionalGID == 0 {\n\t\t\tcontinue\n\t\t}\n","")'
./mkpatch.sh C03-keep-old-rdt $f 's.replace("\t\tspec.Linux.IntelRdt = (&IntelRdt{e.IntelRdt}).toOCI()","\t\tif spec.Linux.IntelRdt == nil {\n\t\t\tspec.Linux.IntelRdt = (&IntelRdt{e.IntelRdt}).toOCI()\n\t\t}")'
./mkpatch.sh C03-minor-only-when-zero pkg/cdi/container-edits_unix.go 's.replace("\t\td.Major = major\n\t\td.Minor = minor\n","\t\td.Major = major\n\t\tif d.Minor == 0 {\n\t\t\td.Minor = minor\n\t\t}\n")'
./mkpatch.sh C03-host-type-ignored pkg/cdi/container-edits_unix.go 's.replace("\tif d.Type == \"\" {\n\t\td.Type = deviceType\n\t} else {","\tif d.Type == \"\" {\n\t\td.Type = charDevice\n\t} else {")'
./mkpatch.sh C03-env-after-devices $f 's.replace("\tif len(e.Env) > 0 {\n\t\tspecgen.AddMultipleProcessEnv(e.Env)\n\t}\n\n\tfor _, d := range e.DeviceNodes {","\tfor _, d := range e.DeviceNodes {").replace("\tif len(e.Mounts) > 0 {\n\t\tfor _, m := range e.Mounts {","\tif len(e.Env) > 0 {\n\t\tspecgen.AddMultipleProcessEnv(e.Env)\n\t}\n\n\tif len(e.Mounts) > 0 {\n\t\tfor _, m := range e.Mounts {")'
# must pass
./mkpatch.sh C03-access-var-renamed $f 's.replace("\t\t\taccess := d.Permissions\n\t\t\tif access == \"\" {\n\t\t\t\taccess = \"rwm\"\n\t\t\t}\n\t\t\tspecgen.AddLinuxResourcesDevice(true, dev.Type, &dev.Major, &dev.Minor, access)","\t\t\tperm := \"rwm\"\n\t\t\tif d.Permissions != \"\" {\n\t\t\t\tperm = d.Permissions\n\t\t\t}\n\t\t\tspecgen.AddLinuxResourcesDevice(true, dev.Type, &dev.Major, &dev.Minor, perm)")' benign
./mkpatch.sh C03-hook-switch-order $f 's.replace("\t\tcase PrestartHook:\n\t\t\tspecgen.AddPreStartHook(ociHook)\n\t\tcase PoststartHook:\n\t\t\tspecgen.AddPostStartHook(ociHook)\n","\t\tcase PoststartHook:\n\t\t\tspecgen.AddPostStartHook(ociHook)\n\t\tcase PrestartHook:\n\t\t\tspecgen.AddPreStartHook(ociHook)\n")' benign
./mkpatch.sh C03-direct-write-process $f 's.replace("\tspecgen := ocigen.NewFromSpec(spec)\n","\tspecgen := ocigen.NewFromSpec(spec)\n\tif spec.Process != nil {\n\t\tspec.Process.NoNewPrivileges = false\n\t}\n")'
