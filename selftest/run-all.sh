#!/bin/bash
# usage: selftest/run-all.sh [id ...]   runs the whole corpus of the given (default: all claimed) properties one after
# the other and keeps each log under selftest/last-run/st-<id>.log (the input of seeded/mkmeta.py and tools/mkdetect.py).
cd "$(dirname "$0")/.."
ids="$@"; [ -n "$ids" ] || ids="C01 C02 C03 C04 C05 C06 C07 C08 C10 C12 C13 C14 C15 C16"
mkdir -p selftest/last-run
rc=0
for id in $ids; do
  s=$(date +%s)
  selftest/run.sh "$id" > "selftest/last-run/st-$id.log.new" 2>&1; c=$?
  mv "selftest/last-run/st-$id.log.new" "selftest/last-run/st-$id.log"
  echo "CORPUS $id exit $c $(( $(date +%s)-s ))s $(grep -c detected selftest/last-run/st-$id.log) detected $(grep -c accepted selftest/last-run/st-$id.log) accepted $(grep -c 'NOT DETECTED\|FALSE ALARM\|does not apply' selftest/last-run/st-$id.log) bad"
  [ $c -eq 0 ] || rc=3
done
exit $rc
