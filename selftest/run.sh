#!/bin/bash
# usage: selftest/run.sh <property-id> [patch-name-substring]
# Applies each must-fail patch (mutants/<id>-*.patch) and each must-pass patch (benign/<id>-*.patch)
# to a scratch copy of /repo, runs the property check against the copy and compares with the expectation.
# exit 0: all as expected; exit 3: an undetected mutant or an alarm on a benign edit (machinery defect).
cd "$(dirname "$0")/.."
export GOFLAGS=-mod=mod GOPROXY=off GOSUMDB=off GOTOOLCHAIN=local
id="$1"; filter="$2"; bad=0; root="$(pwd)"
run_one() {
  local patch="$1" expect="$2"
  local tmp; tmp=$(mktemp -d "${TMPDIR:-/var/tmp}/gocv-mut-XXXXXX")
  rsync -a --exclude .git --exclude cmd/validate/validate "${VERIF_REPO:-/repo}/" "$tmp/"
  if ! (cd "$tmp" && patch -p1 -s < "$root/$patch"); then echo "SELFTEST $id $(basename $patch): patch does not apply"; rm -rf "$tmp"; bad=1; return; fi
  local out; out=$(bin/gocv verify --property "$id" --tier quick --repo "$tmp" --verif "$(pwd)" --no-evidence --scratch --fail-fast 2>/dev/null); local code=$?
  rm -rf "$tmp"
  local first; first=$(echo "$out" | grep -m1 '^VIOLATION' | sed "s#$tmp#<scratch>#")
  if [ "$expect" = fail ]; then
    if [ $code -eq 1 ]; then echo "SELFTEST $id $(echo $patch | sed 's#selftest/mutants/##; s#\.patch##; s#/patch.diff##'): detected ($(echo "$out" | grep -c '^VIOLATION') violations; $(echo "$first" | sed 's/.*replay=[^ ]*\/\([^/ ]*\)\.json.*/\1/'))"; else echo "SELFTEST $id $(echo $patch | sed 's#selftest/mutants/##; s#\.patch##; s#/patch.diff##'): NOT DETECTED (exit $code)"; bad=1; fi
  else
    if [ $code -eq 0 ]; then echo "SELFTEST $id $(basename $patch .patch): benign edit accepted"; else echo "SELFTEST $id $(basename $patch .patch): FALSE ALARM (exit $code) $first"; bad=1; fi
  fi
}
for p in selftest/mutants/$id-*$filter*.patch; do [ -e "$p" ] && run_one "$p" fail; done
for p in seeded/$id*/patch.diff; do [ -e "$p" ] && [ -z "$filter" -o "$filter" = seeded ] && run_one "$p" fail; done
for p in selftest/benign/$id-*$filter*.patch; do [ -e "$p" ] && run_one "$p" pass; done
[ $bad -eq 0 ] || exit 3
exit 0
