#!/bin/bash
# usage: mkpatch.sh <name> <file> <python-expr-on-s>   (creates selftest/mutants/<name>.patch from a scratch copy of /repo)
set -e
name="$1"; file="$2"; expr="$3"; kind="${4:-mutants}"
tmp=$(mktemp -d /var/tmp/gocv-mk-XXXXXX)
trap 'rm -rf "$tmp"' EXIT
git -C /repo archive HEAD | tar -x -C "$tmp"
(cd "$tmp" && git init -q && git add -A && git -c user.email=a@b -c user.name=x commit -qm base)
python3 - "$tmp/$file" "$expr" <<'PY'
import sys
p, expr = sys.argv[1], sys.argv[2]
s = open(p).read()
t = eval(expr, {"s": s})
if t == s:
    print("NO CHANGE", file=sys.stderr); sys.exit(1)
open(p, "w").write(t)
PY
(cd "$tmp" && git diff) > "/verif/selftest/$kind/$name.patch"
echo "wrote selftest/$kind/$name.patch"
