#!/bin/bash
# Builds the gocv verification-condition generator from the sources in /verif/gocv (offline).
set -e
cd "$(dirname "$0")"
export GOFLAGS=-mod=mod GOPROXY=off GOSUMDB=off GOTOOLCHAIN=local
mkdir -p bin evidence
(cd gocv && go build -o ../bin/gocv .)
echo "gocv built: $(pwd)/bin/gocv"
