module axiomtest

go 1.21
