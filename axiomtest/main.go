// axiomtest executes every assumed law of path/filepath, strings and os that the contracts in
// /verif/contracts/external.gocv state as `axiom` (C10, C16) against the real functions, on an exhaustive
// corpus of short paths over a separator/dot/letter alphabet plus random longer ones. It prints one line per
// law with the number of instances checked and exits 1 on the first counterexample.
package main

import (
	"fmt"
	"math/rand"
	"os"
	"path/filepath"
	"strings"
)

func endsWith(p, e string) bool { return strings.HasSuffix(p, e) }
func oneComponent(n string) bool {
	return len(n) >= 1 && !strings.Contains(n, "/") && n != "." && n != ".."
}
func specExt(p string) bool { return endsWith(p, ".json") || endsWith(p, ".yaml") }

type law struct {
	name  string
	arity int
	check func(a, b string) (applies, ok bool)
}

var laws = []law{
	{"ext-json", 1, func(p, _ string) (bool, bool) { return true, (filepath.Ext(p) == ".json") == endsWith(p, ".json") }},
	{"ext-yaml", 1, func(p, _ string) (bool, bool) { return true, (filepath.Ext(p) == ".yaml") == endsWith(p, ".yaml") }},
	{"clean-idem", 1, func(p, _ string) (bool, bool) { return true, filepath.Clean(filepath.Clean(p)) == filepath.Clean(p) }},
	{"clean-join", 2, func(a, b string) (bool, bool) {
		return a != "" || b != "", filepath.Clean(filepath.Join(a, b)) == filepath.Join(a, b)
	}},
	{"clean-append", 1, func(c, _ string) (bool, bool) {
		return filepath.Clean(c) == c, filepath.Clean(c+".yaml") == c+".yaml"
	}},
	{"dir-nonempty", 1, func(p, _ string) (bool, bool) { return true, len(filepath.Dir(p)) >= 1 }},
	{"clean-nonempty", 1, func(p, _ string) (bool, bool) { return true, len(filepath.Clean(p)) >= 1 }},
	{"clean-dir", 1, func(p, _ string) (bool, bool) { return true, filepath.Clean(filepath.Dir(p)) == filepath.Dir(p) }},
	{"join-dir-base", 1, func(p, _ string) (bool, bool) {
		return filepath.Clean(p) == p, filepath.Join(filepath.Dir(p), filepath.Base(p)) == p
	}},
	{"dir-join", 2, func(d, n string) (bool, bool) {
		return d != "" && oneComponent(n), filepath.Dir(filepath.Join(d, n)) == filepath.Clean(d) && filepath.Base(filepath.Join(d, n)) == n
	}},
	{"base-single", 1, func(n, _ string) (bool, bool) { return oneComponent(n), filepath.Base(n) == n }},
	{"join-append", 2, func(d, n string) (bool, bool) {
		return oneComponent(n), filepath.Join(d, n)+".yaml" == filepath.Join(d, n+".yaml")
	}},
	{"join-suffix", 2, func(d, n string) (bool, bool) {
		j := filepath.Join(d, n)
		return oneComponent(n), endsWith(j, ".json") == endsWith(n, ".json") && endsWith(j, ".yaml") == endsWith(n, ".yaml")
	}},
	// strings.ReplaceAll with one-byte old/new: same length, bytewise substitution
	{"replaceall-bytewise", 1, func(s, _ string) (bool, bool) {
		r := strings.ReplaceAll(s, "/", "_")
		if len(r) != len(s) {
			return true, false
		}
		for i := 0; i < len(s); i++ {
			w := s[i]
			if w == '/' {
				w = '_'
			}
			if r[i] != w {
				return true, false
			}
		}
		return true, true
	}},
}

// tempLaws checks the os.CreateTemp naming clauses of the contract on the real function.
func tempLaws() (int, error) {
	dir, err := os.MkdirTemp("", "axiomtest")
	if err != nil {
		return 0, err
	}
	defer os.RemoveAll(dir)
	n := 0
	for _, pat := range []string{"spec.*.tmp", "spec.*.yaml", "x*", "plain", "a*b*c.json", "*", "tmp.*"} {
		for k := 0; k < 20; k++ {
			f, err := os.CreateTemp(dir, pat)
			if err != nil {
				return n, err
			}
			name := f.Name()
			f.Close()
			n++
			if filepath.Dir(name) != filepath.Clean(dir) || filepath.Clean(name) != name || len(name) < 1 {
				return n, fmt.Errorf("CreateTemp(%q,%q) = %q: not directly inside the clean directory", dir, pat, name)
			}
			last := name[len(name)-1]
			if strings.Contains(pat, "*") && pat[len(pat)-1] != '*' {
				if last != pat[len(pat)-1] {
					return n, fmt.Errorf("CreateTemp pattern %q gave %q: last byte differs from the pattern's", pat, name)
				}
			} else if last < '0' || last > '9' {
				return n, fmt.Errorf("CreateTemp pattern %q gave %q: last byte is not a digit", pat, name)
			}
		}
	}
	return n, nil
}

func corpus(seed int64) []string {
	alpha := []byte{'/', '.', 'a', 'j', 'l'}
	var out []string
	var gen func(prefix []byte, n int)
	gen = func(prefix []byte, n int) {
		out = append(out, string(prefix))
		if n == 0 {
			return
		}
		for _, c := range alpha {
			gen(append(append([]byte(nil), prefix...), c), n-1)
		}
	}
	gen(nil, 5)
	fixed := []string{"x.json", "x.yaml", ".json", ".yaml", "a/.json", "a.b/c", "a.json/b", "a.yaml/", "/", "//", "/..", "../..", "a/../..", "./a", "a/./b.yaml",
		"vendor.com-class_id.JSON", "v-c_a/b", "dir/x.json.yaml", "x.yaml.json", "..yaml", "...json", "a//b", "/etc/cdi", "/var/run/cdi/", "x.jso", "json", "a.yam", "\x00", "a b", "é.yaml"}
	out = append(out, fixed...)
	r := rand.New(rand.NewSource(seed))
	pieces := []string{"/", ".", "..", "a", "b.json", "c.yaml", ".yaml", ".json", "spec", "-", "_", "x.tmp", "//", "/./", "/../"}
	for i := 0; i < 3000; i++ {
		var b strings.Builder
		for k := r.Intn(6); k >= 0; k-- {
			b.WriteString(pieces[r.Intn(len(pieces))])
		}
		out = append(out, b.String())
	}
	return out
}

func main() {
	seed := int64(1)
	if len(os.Args) > 1 {
		fmt.Sscan(os.Args[1], &seed)
	}
	cs := corpus(seed)
	small := cs
	if len(small) > 1200 {
		// binary laws: all pairs of the exhaustive part up to length 3 plus the fixed and a random sample
		small = nil
		for _, s := range cs {
			if len(s) <= 3 {
				small = append(small, s)
			}
		}
		small = append(small, cs[len(cs)-3030:len(cs)-2700]...)
	}
	for _, l := range laws {
		n := 0
		if l.arity == 1 {
			for _, a := range cs {
				if ap, ok := l.check(a, ""); ap {
					n++
					if !ok {
						fmt.Printf("AXIOM %s FAILS for %q\n", l.name, a)
						os.Exit(1)
					}
				}
			}
		} else {
			for _, a := range small {
				for _, b := range small {
					if ap, ok := l.check(a, b); ap {
						n++
						if !ok {
							fmt.Printf("AXIOM %s FAILS for %q, %q\n", l.name, a, b)
							os.Exit(1)
						}
					}
				}
			}
		}
		fmt.Printf("axiom %s: %d instances hold\n", l.name, n)
	}
	n, err := tempLaws()
	if err != nil {
		fmt.Printf("AXIOM createtemp-name FAILS: %v\n", err)
		os.Exit(1)
	}
	fmt.Printf("axiom createtemp-name: %d instances hold\n", n)
}
