#!/usr/bin/env python3
# Debug aid: splits the conjunction in the goal of an obligation file into its conjuncts and runs z3 on each.
# usage: tools/splitgoal.py file.smt2 [timeout_s]
import sys, subprocess, time
f = sys.argv[1]
tmo = sys.argv[2] if len(sys.argv) > 2 else '10'
lines = open(f).read().rstrip('\n').split('\n')
gi = max(i for i, l in enumerate(lines) if l.startswith('(assert (not '))
g = lines[gi][len('(assert (not '):-2]


def top_args(s):
    # s = "(and a b c)" -> [a, b, c]
    assert s.startswith('(and ')
    body = s[5:-1]
    out, depth, cur = [], 0, ''
    for ch in body:
        if ch == '(':
            depth += 1
        if ch == ')':
            depth -= 1
        if ch == ' ' and depth == 0:
            if cur:
                out.append(cur)
            cur = ''
        else:
            cur += ch
    if cur:
        out.append(cur)
    return out


def flatten(s):
    if s.startswith('(and '):
        r = []
        for a in top_args(s):
            r += flatten(a)
        return r
    return [s]


parts = flatten(g)
print(len(parts), 'conjuncts')
for i, p in enumerate(parts):
    ls = lines[:gi] + ['(assert (not %s))' % p] + lines[gi + 1:]
    open('/tmp/split.smt2', 'w').write('\n'.join(ls) + '\n')
    t0 = time.time()
    r = subprocess.run(['z3-new', '-T:' + tmo, '/tmp/split.smt2'], capture_output=True, text=True).stdout.split('\n')[0]
    print(i, r, round(time.time() - t0, 1), p[:150])
