#!/usr/bin/env python3
# One-off: adds the contracts of the listing entry points (C01) to /repo/pkg/cdi/contracts_verif.go and the
# assumed contract of sort.Strings to contracts/external.gocv. Idempotent.
p = '/repo/pkg/cdi/contracts_verif.go'
s = open(p).read()
old = '''//@ func (c *Cache) ListDevices() (r []string)
//@   requires c != nil && CacheInit(c)
//@   ghostwrites maxP, cnt, first, scanMark
//@ func (c *Cache) ListVendors() (r []string)
//@   requires c != nil && CacheInit(c)
//@   ghostwrites maxP, cnt, first, scanMark
//@ func (c *Cache) GetVendorSpecs(vendor string) (r []*Spec)
//@   requires c != nil && CacheInit(c)
//@   ghostwrites maxP, cnt, first, scanMark
'''
new = '''// C01: the listings are the keys of the index maps (every key once or more, nothing else), in sort.Strings order;
// the Specs of a vendor are the index entry of that vendor.
//@ pred Lists(r []string, n int, k string) = exists(i, 0 <= i && i < n, r[i] == k)
//@ func (c *Cache) ListDevices() (r []string)
//@   requires c != nil && CacheInit(c)
//@   ghostwrites maxP, cnt, first, scanMark
//@   ensures[C01] forall(k, string, true, iff(has(c.devices, k), Lists(r, len(r), k)))
//@   loop 1 invariant base(devices) == 0 || fresh(devices)
//@   loop 1 invariant forall(k, string, true, iff(has(#seen, k), Lists(devices, len(devices), k)))
//@   loop 1 invariant forall(k, string, has(#seen, k), has(c.devices, k))
//@ func (c *Cache) ListVendors() (r []string)
//@   requires c != nil && CacheInit(c)
//@   ghostwrites maxP, cnt, first, scanMark
//@   ensures[C01] forall(k, string, true, iff(has(c.specs, k), Lists(r, len(r), k)))
//@   loop 1 invariant base(vendors) == 0 || fresh(vendors)
//@   loop 1 invariant forall(k, string, true, iff(has(#seen, k), Lists(vendors, len(vendors), k)))
//@   loop 1 invariant forall(k, string, has(#seen, k), has(c.specs, k))
//@ func (c *Cache) GetVendorSpecs(vendor string) (r []*Spec)
//@   requires c != nil && CacheInit(c)
//@   ghostwrites maxP, cnt, first, scanMark
//@   ensures[C01] r == c.specs[vendor]
'''
if old in s:
    s = s.replace(old, new, 1)
    open(p, 'w').write(s)
    print('contracts added')
p = '/verif/contracts/external.gocv'
s = open(p).read()
if 'extern func sort.Strings' not in s:
    s += '''
// sort.Strings(x): x is rearranged (same elements, each as often as before - stated as mutual inclusion) into
// ascending order; only the elements of x are written. Assumed.
extern func sort.Strings(x []string)
  modifies elems(x)
  ensures len(x) == old(len(x))
  ensures forall(i, 0 <= i && i < len(x), trig(pos(x, i), exists(j, 0 <= j && j < len(x), x[i] == old(x[j]))))
  ensures forall(j, 0 <= j && j < len(x), trig(old(pos(x, j)), exists(i, 0 <= i && i < len(x), x[i] == old(x[j]))))
'''
    open(p, 'w').write(s)
    print('sort.Strings added')
