#!/usr/bin/env python3
# Generates the C03 clauses of the contract of (*ContainerEdits).Apply in /repo/pkg/cdi/contracts_verif.go
# (the block between the C03 markers is rewritten in place; everything else in the file is left alone).
P = '/repo/pkg/cdi/contracts_verif.go'
s = open(P).read()

DEFS = '''// ---- C03: what Apply does, as the log of generator operations (contracts/external.gocv) and the direct writes.
// Expected values, from the statement: type, major and minor of the host node when the Spec leaves them
// unspecified; uid/gid of the node, else of the process when non-zero, else none (-1); permissions default rwm.
//@ fn ExpType(d *cdi.DeviceNode) string = ite(NeedsHostInfo(d.Type, d.Major), deviceInfoFromPath(HostPathOf(d.HostPath, d.Path)), d.Type)
//@ fn ExpMajor(d *cdi.DeviceNode) int64 = ite(NeedsHostInfo(d.Type, d.Major) && d.Major == 0 && ExpType(d) != "p", nth(deviceInfoFromPath, 1, HostPathOf(d.HostPath, d.Path)), d.Major)
//@ fn ExpMinor(d *cdi.DeviceNode) int64 = ite(NeedsHostInfo(d.Type, d.Major) && d.Major == 0 && ExpType(d) != "p", nth(deviceInfoFromPath, 2, HostPathOf(d.HostPath, d.Path)), d.Minor)
//@ fn ProcUID(spec *oci.Spec) int = ite(spec.Process != nil && spec.Process.User.UID > 0, spec.Process.User.UID, 0 - 1)
//@ fn ProcGID(spec *oci.Spec) int = ite(spec.Process != nil && spec.Process.User.GID > 0, spec.Process.User.GID, 0 - 1)
// the id handed to AddDevice: the node's own pointer when set; else a pointer to a copy of the process id when
// that is non-zero; else nil. idPtr/idVal: the logged pointer and the value it points to (-1 for nil).
//@ pred IDOK(own *uint32, proc int, idPtr int, idVal int) = implies(own != nil, idPtr == cast(own, int)) &&
//@        implies(own == nil && proc >= 0, idPtr != 0 && idVal == proc) && implies(own == nil && proc < 0, idPtr == 0)
//@ fn ExpPerm(d *cdi.DeviceNode) string = ite(d.Permissions == "", "rwm", d.Permissions)
//@ pred BlockOrChar(t string) = t == "b" || t == "c"
//@ fn OffAt(off intarray, k int, start int) int = ite(k == 0, start, off[k])
//@ fn LenHooksCreateRuntime(spec *oci.Spec) int = ite(spec.Hooks == nil, 0, len(spec.Hooks.CreateRuntime))
//@ fn LenHooksCreateContainer(spec *oci.Spec) int = ite(spec.Hooks == nil, 0, len(spec.Hooks.CreateContainer))
//@ fn LenHooksStartContainer(spec *oci.Spec) int = ite(spec.Hooks == nil, 0, len(spec.Hooks.StartContainer))
//@ pred HookIs(o oci.Hook, h *cdi.Hook) = o.Path == h.Path && o.Args == h.Args && o.Env == h.Env && o.Timeout == h.Timeout
'''

ARRS = ['opk', 'opsA', 'opsB', 'opsC', 'opiA', 'opiB', 'opiC', 'opiD', 'opiE', 'opiF']


def prefix_stable(arrs, since):
    return 'forall(j, j < %s, trig(opk[j], %s))' % (since, ' && '.join('%s[j] == %s(%s[j])' % (a, 'athead' if since.startswith('athead') else 'atloop', a) for a in arrs))


def conj(parts, indent='//@                        '):
    return (' &&\n' + indent).join(parts)


# ------------------------------------------------------------------ Devices
DARR = ['opk', 'opsA', 'opsB', 'opiA', 'opiB', 'opiC', 'opiD', 'opiE', 'opiF', 'opiG']
dev_rec = lambda o, k: [
    'opk[%s] == 2 && opsA[%s] == e.DeviceNodes[%s].Path' % (o, o, k),
    'opk[%s + 1] == 3 && opsA[%s + 1] == e.DeviceNodes[%s].Path && opsB[%s + 1] == xT[%s] && opiA[%s + 1] == xMaj[%s] && opiB[%s + 1] == xMin[%s]' % (o, o, k, o, k, o, k, o, k),
    'opiC[%s + 1] == cast(e.DeviceNodes[%s].FileMode, int) && IDOK(e.DeviceNodes[%s].UID, xUid[%s], opiD[%s + 1], opiF[%s + 1]) && IDOK(e.DeviceNodes[%s].GID, xGid[%s], opiE[%s + 1], opiG[%s + 1])' % (o, k, k, k, o, o, k, k, o, o),
    'implies(BlockOrChar(xT[%s]), opk[%s + 2] == 4 && opsA[%s + 2] == xT[%s] && opsB[%s + 2] == ExpPerm(e.DeviceNodes[%s]) && opiA[%s + 2] == xMaj[%s] && opiB[%s + 2] == xMin[%s] && opiC[%s + 2] == 1)' % (k, o, o, k, o, k, o, k, o, k, o),
]


def dev_all(n, start):
    o = 'OffAt(dOff, k, %s)' % start
    tot = 'opn' if n == '#i' else 'dTotal'
    parts = [
        '%s <= opn && %s == OffAt(dOff, %s, %s)' % (start, tot, n, start),
        'forall(k, 1 <= k && k <= %s, trig(dOff[k], dOff[k] == dEnd[k-1]))' % n,
        'forall(k, 0 <= k && k < %s, trig(dOff[k], %s <= %s && dEnd[k] <= %s && dEnd[k] == %s + 2 + ite(BlockOrChar(xT[k]), 1, 0)))' % (n, start, o, tot, o),
    ]
    for r in dev_rec(o, 'k'):
        parts.append('forall(k, 0 <= k && k < %s, trig(dOff[k], %s))' % (n, r))
    return parts


devices = '''// C03.Devices: for every device node, in order: RemoveDevice(path), AddDevice(node with the expected values),
// and for block and character nodes AddLinuxResourcesDevice(allow, type, major, minor, permissions).
// dOff[k]/dEnd[k]: log positions of node k; xT/xMaj/xMin: expected type/major/minor, defined by the ghost updates
// below as ExpType/ExpMajor/ExpMinor of the node when it is handled; xUid/xGid: the process ids (or -1) at the start of the iteration.
//@   ghostvar dOff intarray
//@   ghostvar dEnd intarray
//@   ghostvar xT strarray
//@   ghostvar xMaj intarray
//@   ghostvar xMin intarray
//@   ghostvar xUid intarray
//@   ghostvar xGid intarray
//@   ghostvar dStart int
//@   ghostvar dTotal int
//@   ghost at loop 1 body end: dOff = store(dOff, #i, opn)
//@   ghost at loop 1 body end: dEnd = store(dEnd, #i - 1, opn)
//@   ghost at loop 1 body end: xT = store(xT, #i - 1, ExpType(e.DeviceNodes[#i - 1]))
//@   ghost at loop 1 body end: xMaj = store(xMaj, #i - 1, ExpMajor(e.DeviceNodes[#i - 1]))
//@   ghost at loop 1 body end: xMin = store(xMin, #i - 1, ExpMinor(e.DeviceNodes[#i - 1]))
//@   ghost at loop 1 body end: xUid = store(xUid, #i - 1, athead(ProcUID(spec)))
//@   ghost at loop 1 body end: xGid = store(xGid, #i - 1, athead(ProcGID(spec)))
//@   ghost at loop 1 body end: dStart = atloop(opn)
//@   ghost at loop 1 body end: dTotal = opn
'''
devices += '//@   assert[only C03.Devices] at loop 1 body end: opn == athead(opn) + 2 + ite(BlockOrChar(xT[#i - 1]), 1, 0) && ' + prefix_stable(DARR, 'athead(opn)') + ' &&\n//@                        ' + conj(dev_rec('athead(opn)', '#i - 1')) + '\n'
devices += '//@   loop 1 invariant[only C03.Devices] #i == 0 || (dStart == atloop(opn) && dTotal == opn)\n'
for part in dev_all('#i', 'atloop(opn)'):
    devices += '//@   loop 1 invariant[only C03.Devices] ' + part + '\n'
# the log as it is when the last node has been handled (snapshot arrays), kept below dTotal by the later loops
snap_eq = 'forall(j, j < dTotal, trig(opk[j], %s))' % ' && '.join('%s[j] == s_%s[j]' % (a, a) for a in DARR)
for a in DARR:
    devices += '//@   ghostvar s_%s %s\n//@   ghost at loop 1 body end: s_%s = %s\n' % (a, 'strarray' if a.startswith('ops') else 'intarray', a, a)
devices += '//@   loop 1 invariant[only C03.Devices] implies(#i > 0, %s)\n' % snap_eq
for L in (2, 3, 4):
    devices += '//@   loop %d invariant[only C03.Devices] implies(len(e.DeviceNodes) > 0, dTotal <= opn && %s)\n' % (L, snap_eq)
for part in ['dTotal <= opn'] + dev_all('len(e.DeviceNodes)', 'dStart'):
    devices += '//@   assert[only C03.Devices] at return: implies(err == nil && e != nil && e.ContainerEdits != nil && len(e.DeviceNodes) > 0, ' + part + ')\n'


# ------------------------------------------------------------------ Mounts
MARR = ['opk', 'opsA', 'opsB', 'opsC', 'opiA', 'opiB', 'opiC']
mnt_rec = lambda o, k: [
    'opk[%s] == 5 && opsA[%s] == e.Mounts[%s].ContainerPath' % (o, o, k),
    'opk[%s + 1] == 6 && opsA[%s + 1] == e.Mounts[%s].ContainerPath && opsB[%s + 1] == e.Mounts[%s].HostPath && opsC[%s + 1] == e.Mounts[%s].Type' % (o, o, k, o, k, o, k),
    'opiA[%s + 1] == base(e.Mounts[%s].Options) && opiB[%s + 1] == off(e.Mounts[%s].Options) && opiC[%s + 1] == len(e.Mounts[%s].Options)' % (o, k, o, k, o, k),
]
mounts = """// C03.Mounts: for every mount, in order: RemoveMount(containerPath), AddMount(source: hostPath, destination:
// containerPath, type, options); after the last one, one stable sort of the generator's mount list by depth.
//@   ghostvar mStart int
//@   ghostvar mTotal int
//@   ghost at loop 2 body end: mStart = atloop(opn)
//@   ghost at loop 2 body end: mTotal = opn
"""
mounts += '//@   assert[only C03.Mounts] at loop 2 body end: opn == athead(opn) + 2 && ' + prefix_stable(MARR, 'athead(opn)') + ' &&\n//@                        ' + conj(mnt_rec('athead(opn)', '#i - 1')) + '\n'
mounts += '//@   loop 2 invariant[only C03.Mounts] (#i == 0 || (mStart == atloop(opn) && mTotal == opn)) && opn == atloop(opn) + 2 * #i &&\n//@                        forall(k, 0 <= k && k < #i, trig(pos(e.Mounts, k), ' + conj(mnt_rec('(atloop(opn) + 2 * k)', 'k')) + '))\n'
for L in (3, 4):
    mounts += '//@   loop %d invariant[only C03.Mounts] atloop(opn) <= opn && %s\n' % (L, prefix_stable(MARR, 'atloop(opn)'))
mounts += '//@   assert[only C03.Mounts] at return: implies(err == nil && e != nil && e.ContainerEdits != nil && len(e.Mounts) > 0, mTotal == mStart + 2 * len(e.Mounts) && mTotal < opn && opk[mTotal] == 12 &&\n//@                        forall(k, 0 <= k && k < len(e.Mounts), trig(pos(e.Mounts, k), ' + conj(mnt_rec('(mStart + 2 * k)', 'k')) + ')))\n'
mounts += '//@   assert[only C03.Mounts] at call of sortMounts: len(e.Mounts) > 0 && #arg0 == &specgen\n'

# ------------------------------------------------------------------ Hooks
HARR = ['opk', 'opsA', 'opiA', 'opiB', 'opiC', 'opiD', 'opiE']
def hook_rec(o, k, end):
    h = 'e.Hooks[%s]' % k
    gen = lambda code: 'opk[%s] == %d && opsA[%s] == %s.Path && opiA[%s] == base(%s.Args) && opiB[%s] == len(%s.Args) && opiC[%s] == base(%s.Env) && opiD[%s] == len(%s.Env) && opiE[%s] == cast(%s.Timeout, int) && %s == %s + 1' % (o, code, o, h, o, h, o, h, o, h, o, h, o, h, end, o)
    return [
        'implies(%s.HookName == "prestart", %s)' % (h, gen(7)),
        'implies(%s.HookName == "poststart", %s)' % (h, gen(8)),
        'implies(%s.HookName == "poststop", %s)' % (h, gen(9)),
        'implies(%s.HookName == "createRuntime" || %s.HookName == "createContainer" || %s.HookName == "startContainer", %s == %s)' % (h, h, h, end, o),
        '(%s.HookName == "prestart" || %s.HookName == "poststart" || %s.HookName == "poststop" || %s.HookName == "createRuntime" || %s.HookName == "createContainer" || %s.HookName == "startContainer")' % (h, h, h, h, h, h),
    ]
hooks = """// C03.Hooks: every hook goes to exactly the list of its stage: prestart/poststart/poststop through the generator
// (logged with path, args, env, timeout), createRuntime/createContainer/startContainer by a direct append to
// that list of spec.Hooks (one more element, which is the hook; the other two direct lists keep their length).
//@ ghostdummy
//@   ghostvar hOff intarray
//@   ghostvar hEnd intarray
//@   ghostvar hStart int
//@   ghostvar hTotal int
//@   ghost at loop 3 body end: hOff = store(hOff, #i, opn)
//@   ghost at loop 3 body end: hEnd = store(hEnd, #i - 1, opn)
//@   ghost at loop 3 body end: hStart = atloop(opn)
//@   ghost at loop 3 body end: hTotal = opn
""".replace('//@ ghostdummy\n', '')
def direct(stage, fld):
    others = [f for f in ('CreateRuntime', 'CreateContainer', 'StartContainer') if f != fld]
    return 'implies(e.Hooks[#i - 1].HookName == "%s", spec.Hooks != nil && len(spec.Hooks.%s) == athead(LenHooks%s(spec)) + 1 && HookIs(spec.Hooks.%s[len(spec.Hooks.%s) - 1], e.Hooks[#i - 1]) && %s)' % (
        stage, fld, fld, fld, fld, ' && '.join('len(spec.Hooks.%s) == athead(LenHooks%s(spec))' % (o, o) for o in others))
hooks += '//@   assert[only C03.Hooks] at loop 3 body end: ' + prefix_stable(HARR, 'athead(opn)') + ' &&\n//@                        ' + conj(hook_rec('athead(opn)', '#i - 1', 'opn')) + '\n'
hooks += '//@   assert[only C03.Hooks] at loop 3 body end: ' + conj([direct('createRuntime', 'CreateRuntime'), direct('createContainer', 'CreateContainer'), direct('startContainer', 'StartContainer')]) + '\n'
hooks += '//@   loop 3 invariant[only C03.Hooks] (#i == 0 || (hStart == atloop(opn) && hTotal == opn)) && atloop(opn) <= opn && opn == OffAt(hOff, #i, atloop(opn)) &&\n//@                        forall(k, 1 <= k && k <= #i, trig(hOff[k], hOff[k] == hEnd[k-1])) &&\n//@                        forall(k, 0 <= k && k < #i, trig(hEnd[k], atloop(opn) <= OffAt(hOff, k, atloop(opn)) && hEnd[k] <= opn && ' + conj(hook_rec('OffAt(hOff, k, atloop(opn))', 'k', 'hEnd[k]')) + '))\n'
hooks += '//@   loop 4 invariant[only C03.Hooks] atloop(opn) <= opn && %s\n' % prefix_stable(HARR, 'atloop(opn)')
hooks += '//@   assert[only C03.Hooks] at return: implies(err == nil && e != nil && e.ContainerEdits != nil && len(e.Hooks) > 0, hTotal <= opn && hStart <= hTotal && hTotal == OffAt(hOff, len(e.Hooks), hStart) &&\n//@                        forall(k, 1 <= k && k <= len(e.Hooks), trig(hOff[k], hOff[k] == hEnd[k-1])) &&\n//@                        forall(k, 0 <= k && k < len(e.Hooks), trig(hEnd[k], hStart <= OffAt(hOff, k, hStart) && hEnd[k] <= hTotal && ' + conj(hook_rec('OffAt(hOff, k, hStart)', 'k', 'hEnd[k]')) + ')))\n'

# ------------------------------------------------------------------ Rest: env, Intel RDT, additional GIDs
rest = """// C03.Rest: AddMultipleProcessEnv(e.Env) first, iff there are variables; SetLinuxIntelRdtClosID and a copy of the
// five RDT fields into a fresh spec.Linux.IntelRdt iff an RDT edit is present; AddProcessAdditionalGid(g) for every
// g != 0 in order and never for 0 (xG[k]: the k-th id as it is when its turn comes).
//@   ghostvar n0 int
//@   ghostvar gOff intarray
//@   ghostvar gEnd intarray
//@   ghostvar gStart int
//@   ghostvar gTotal int
//@   ghost at entry: n0 = opn
//@   ghostvar xG intarray
//@   ghost at loop 4 body end: xG = store(xG, #i - 1, athead(e.AdditionalGIDs[#i - 1]))
//@   ghost at loop 4 body end: gOff = store(gOff, #i, opn)
//@   ghost at loop 4 body end: gEnd = store(gEnd, #i - 1, opn)
//@   ghost at loop 4 body end: gStart = atloop(opn)
//@   ghost at loop 4 body end: gTotal = opn
"""
EARR = ['opk', 'opiA', 'opiB', 'opiC']
env_fact = lambda cur: 'n0 + ite(len(e.Env) > 0, 1, 0) <= %s && implies(len(e.Env) > 0, opk[n0] == 1 && opiA[n0] == base(e.Env) && opiB[n0] == off(e.Env) && opiC[n0] == len(e.Env))' % cur
rest += '//@   loop 1 invariant[only C03.Rest] ' + env_fact('opn') + ' && implies(#i == 0, opn == n0 + ite(len(e.Env) > 0, 1, 0))\n'
for L in (2, 3, 4):
    rest += '//@   loop %d invariant[only C03.Rest] %s\n' % (L, env_fact('opn'))
rest += '//@   assert[only C03.Rest] at return: implies(err == nil && e != nil && e.ContainerEdits != nil, ' + env_fact('opn') + ')\n'
gid_rec = lambda o, k, end: ['implies(xG[%s] != 0, opk[%s] == 11 && opiA[%s] == xG[%s] && %s == %s + 1)' % (k, o, o, k, end, o), 'implies(xG[%s] == 0, %s == %s)' % (k, end, o)]
rest += '//@   assert[only C03.Rest] at loop 4 body end: ' + prefix_stable(EARR, 'athead(opn)') + ' && ' + conj(gid_rec('athead(opn)', '#i - 1', 'opn')) + '\n'
rest += '//@   loop 4 invariant[only C03.Rest] (#i == 0 || (gStart == atloop(opn) && gTotal == opn)) && atloop(opn) <= opn && opn == OffAt(gOff, #i, atloop(opn)) &&\n//@                        forall(k, 1 <= k && k <= #i, trig(gOff[k], gOff[k] == gEnd[k-1])) &&\n//@                        forall(k, 0 <= k && k < #i, trig(gEnd[k], atloop(opn) <= OffAt(gOff, k, atloop(opn)) && gEnd[k] <= opn && ' + conj(gid_rec('OffAt(gOff, k, atloop(opn))', 'k', 'gEnd[k]')) + '))\n'
rest += '//@   loop 4 invariant[only C03.Rest] implies(#i == 0 && e.IntelRdt != nil, opk[opn - 1] == 10 && opsA[opn - 1] == e.IntelRdt.ClosID && spec.Linux != nil && spec.Linux.IntelRdt != nil &&\n//@                        spec.Linux.IntelRdt.ClosID == e.IntelRdt.ClosID && spec.Linux.IntelRdt.L3CacheSchema == e.IntelRdt.L3CacheSchema && spec.Linux.IntelRdt.MemBwSchema == e.IntelRdt.MemBwSchema &&\n//@                        spec.Linux.IntelRdt.EnableCMT == e.IntelRdt.EnableCMT && spec.Linux.IntelRdt.EnableMBM == e.IntelRdt.EnableMBM)\n'
rest += '//@   assert[only C03.Rest] at return: implies(err == nil && e != nil && e.ContainerEdits != nil && len(e.AdditionalGIDs) > 0, gTotal == opn && gTotal == OffAt(gOff, len(e.AdditionalGIDs), gStart) &&\n//@                        forall(k, 1 <= k && k <= len(e.AdditionalGIDs), trig(gOff[k], gOff[k] == gEnd[k-1])) &&\n//@                        forall(k, 0 <= k && k < len(e.AdditionalGIDs), trig(gEnd[k], gStart <= OffAt(gOff, k, gStart) && gEnd[k] <= gTotal && ' + conj(gid_rec('OffAt(gOff, k, gStart)', 'k', 'gEnd[k]')) + ')))\n'

direct = """// C03 frame of the direct writes: besides the logged operations the body itself stores only to these OCI fields
// (the uid/gid of the local device value, the three hook lists without generator support, the RDT object).
//@   directwrites github.com/opencontainers/runtime-spec/specs-go: LinuxDevice.UID, LinuxDevice.GID, Hooks.CreateRuntime, Hooks.CreateContainer, Hooks.StartContainer, Linux.IntelRdt
"""
BODY = devices + mounts + hooks + rest + direct

a = s.index('//@ func (e *ContainerEdits) Apply(spec *oci.Spec) (err error)')
if '// ---- C03: what Apply does' in s:
    a0 = s.index('// ---- C03: what Apply does')
    s = s[:a0] + s[a:]
a = s.index('//@ func (e *ContainerEdits) Apply(spec *oci.Spec) (err error)')
s = s[:a] + DEFS + s[a:]
a = s.index('//@ func (e *ContainerEdits) Apply(spec *oci.Spec) (err error)')
b = s.index('\n\n', a)
blk = s[a:b]
if '// C03.Devices' in blk:
    blk = blk[:blk.index('// C03.Devices')].rstrip('\n')
s = s[:a] + blk + '\n' + BODY.rstrip('\n') + s[b:]
open(P, 'w').write(s)
