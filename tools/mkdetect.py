#!/usr/bin/env python3
# Rewrites section 10 of DESIGN.md (which check catches which change) from self-test logs.
# usage: tools/mkdetect.py log...   (outputs of `selftest/run.sh <id>`)
import re, sys, os, json
root = os.path.join(os.path.dirname(os.path.abspath(__file__)), '..')
rows = {}
for f in sys.argv[1:]:
    for l in open(f):
        m = re.match(r'SELFTEST (\S+) (\S+): (.*)', l.strip())
        if not m:
            continue
        pid, name, res = m.groups()
        rows.setdefault(pid, []).append((name, res))
out = ['## 10. Which checks catch which changes',
       '',
       'Every line below is the result of applying one change to a scratch copy of `/repo` (never to `/repo` itself) and',
       'running the quick check of the property on the copy (`selftest/run.sh <id>`; the thorough tier repeats this and',
       'records it in the evidence). "seeded/<id>" is the change produced by a fresh sub-agent that was given only the',
       'property text and its own scratch worktree, confirmed by me as described in `seeded/<id>/meta.json` (builds, the',
       'unedited suite passes with it, its demonstration fails with it and passes without it). `selftest/mutants/<id>-*`',
       'are my own property-breaking changes, `selftest/benign/<id>-*` behaviour-preserving edits that must not alarm.',
       'The obligation named is the first one reported; "n violations" counts all failed obligations.',
       '']
for pid in sorted(rows):
    out.append('**%s** — `./check %s`' % (pid, pid))
    out.append('')
    out.append('| change | result | first failed obligation |')
    out.append('|---|---|---|')
    for name, res in rows[pid]:
        m = re.match(r'detected \((\d+) violations; (.*)\)', res)
        if m:
            ob = m.group(2)
            ob = re.sub(r'^cdi\.__', 'cdi.(*', ob)
            out.append('| %s | detected, %s violations | `%s` |' % (name, m.group(1), ob[:110]))
        else:
            out.append('| %s | %s | |' % (name, res))
    out.append('')
miss = [(p, n) for p in rows for n, r in rows[p] if 'NOT DETECTED' in r or 'FALSE ALARM' in r]
out.append('Misses and false alarms in this run: %s.' % (', '.join('%s %s' % x for x in miss) if miss else 'none'))
out.append('')
out.append('Seeded changes for properties without a check: none of the kept seeds belongs to a not-applicable property. One')
out.append('third-round seed was produced against the clause of C16 that the C16 check does not claim ("after a refresh the')
out.append("Spec's devices resolve to that file with precedence over every other directory\"): removing `delete(conflicts, name)`")
out.append('from `refresh` - the reverse of the D1 repair. It is kept as `seeded/C01-3`, because it breaks C01 as well and')
out.append("C01's check reports it; the C16 check does not see it, as section 4 says it would not.")
out.append('')
out.append('Runs in `/repo` itself. Besides the scratch-copy runs above, four seeds were run exactly as the brief prescribes')
out.append('(`git -C /repo apply seeded/<s>/patch.diff; ./check <id>; git -C /repo checkout -- .`): `C07-3`, `C04-3`, `C16-2` and')
out.append('`C12-3`. All four exit 1 with a VIOLATION line and `/repo` is clean afterwards; for `C07-3` the solver model')
out.append('(`name = "0{"`) was replayed against the real `ValidateDeviceName` and confirmed, so its VIOLATION line carries no')
out.append('`no-failing-input-found` suffix; the other three end in `no-failing-input-found` (quantified goals give no model).')
out.append('The evidence files were then rewritten by re-running the four checks on the unchanged tree.')
out.append('')
out.append('History of misses that led to stronger checks: `C08-annotation-parts` (a mutant that cannot panic because the')
out.append('name has at least three bytes — an equivalent mutant for C08, replaced); `C16-prio-zero` (the hint spoke about the')
out.append('local variable, not the argument handed to `newSpec` — the assertion now is on `spec.priority` at the call of')
out.append('`write`); `C03-skip-sort` (the proof after the mount loop was vacuous because ghost state written by `pure`/')
out.append('`preserves` callees was not havocked at loop heads — an engine soundness bug, repaired in `callModifies`, after')
out.append('which the whole corpus was run again); `C12-self-deadlock` (call of a locking method while holding the lock —')
out.append('`lockAtCall` added).')
text = '\n'.join(out) + '\n'
p = os.path.join(root, 'DESIGN.md')
s = open(p).read()
if '## 10. Which checks catch which changes' in s:
    a = s.index('## 10. Which checks catch which changes')
    b = s.index('\n---\n', a) if '\n---\n' in s[a:] else len(s)
    s = s[:a] + text + s[b:]
else:
    a = s.index('## Appendix A')
    s = s[:a] + text + '\n---\n\n' + s[a:]
open(p, 'w').write(s)
print('section 10 written:', sum(len(v) for v in rows.values()), 'changes')
