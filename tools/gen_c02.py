#!/usr/bin/env python3
# Generates the C02 part of /repo/pkg/cdi/contracts_verif.go (the same clauses for each of the five edit lists).
# usage: tools/gen_c02.py  (rewrites the block between the C02 markers in place)
import re
P='/repo/pkg/cdi/contracts_verif.go'
LISTS=['Env','DeviceNodes','Hooks','Mounts','AdditionalGIDs']
s=open(P).read()

# ---- helper definitions (before the InjectDevices contract)
defs=['''// C02 oracle, from the statement: request k contributes the edits of its Spec file if no earlier resolved
// request belongs to the same file, then the edits of the device itself. dv[k] is the device request k
// resolved to (ghost copy of c.devices[devices[k]]), fst[k] whether k is the first request of its Spec file.
//@ fn DvAt(dv intarray, k int) *Device = cast(dv[k], *Device)
//@ pred FirstOfSpec(dv intarray, k int) = DvAt(dv, k) != nil &&
//@        forall(j, 0 <= j && j < k, DvAt(dv, j) == nil || DvAt(dv, j).spec != DvAt(dv, k).spec)
//@ fn RdtOf(e *ContainerEdits) *cdi.IntelRdt = ite(e.ContainerEdits == nil, nil, e.IntelRdt)
''']
for L in LISTS:
    defs.append(f'''//@ fn Len{L}(e *ContainerEdits) int = ite(e.ContainerEdits == nil, 0, len(e.{L}))
//@ fn Dev{L}Len(d *Device) int = ite(d != nil, len(d.ContainerEdits.{L}), 0)
''')
defs=''.join(defs)

# ---- clauses inside the InjectDevices contract
body=['''// C02: the accumulated edit lists are the ordered composition. For each list X: offX[k] is its length when
// request k is reached, midX[k] after the Spec-level part of k, endX[k] after the device part of k.
//@   ghostvar fst boolarray
//@   ghostvar dv intarray
//@   ghostvar wit intarray
//@   ghost at loop 1 body end: wit = ite(c.devices[devices[#i - 1]] != nil && !athead(has(specs, c.devices[devices[#i - 1]].spec)), store(wit, cast(c.devices[devices[#i - 1]].spec, int), #i - 1), wit)
//@   ghostvar rdtIn intarray = constarr(0)
//@   ghostvar rdtOut intarray
//@   ghost at loop 1 body end: dv = store(dv, #i - 1, cast(c.devices[devices[#i - 1]], int))
//@   ghost at loop 1 body end: fst = store(fst, #i - 1, c.devices[devices[#i - 1]] != nil && !athead(has(specs, c.devices[devices[#i - 1]].spec)))
//@   ghost at loop 1 body end: rdtIn = store(rdtIn, #i, cast(RdtOf(edits), int))
//@   ghost at loop 1 body end: rdtOut = store(rdtOut, #i - 1, cast(RdtOf(edits), int))
''']
for L in LISTS:
    body.append(f'''//@   ghostvar off{L} intarray = constarr(0)
//@   ghostvar mid{L} intarray
//@   ghostvar end{L} intarray
//@   ghost at loop 1 body end: off{L} = store(off{L}, #i, Len{L}(edits))
//@   ghost at loop 1 body end: mid{L} = store(mid{L}, #i - 1, Len{L}(edits) - Dev{L}Len(c.devices[devices[#i - 1]]))
//@   ghost at loop 1 body end: end{L} = store(end{L}, #i - 1, Len{L}(edits))
''')
body.append('''//@   assert[only C02.Order] at loop 1 body end: forall(sp, *Spec, true, trig(has(specs, sp), iff(has(specs, sp), athead(has(specs, sp)) || (DvAt(dv, #i - 1) != nil && sp == DvAt(dv, #i - 1).spec))))
//@   loop 1 invariant[only C02] specs != nil && fresh(specs)
//@   loop 1 invariant[only C02] base(unresolved) == 0 || own(unresolved) > a1
//@   loop 1 invariant[only C02] forall(k, 0 <= k && k < #i, trig(dv[k], DvAt(dv, k) == c.devices[devices[k]]))
//@   loop 1 invariant[only C02] forall(k, 0 <= k && k < #i, trig(dv[k], implies(fst[k], DvAt(dv, k) != nil)))
//@   loop 1 invariant[only C02.Order] forall(j, 0 <= j && j < #i, trig(dv[j], implies(DvAt(dv, j) != nil, has(specs, DvAt(dv, j).spec))))
//@   loop 1 invariant[only C02.Order] forall(sp, *Spec, true, trig(has(specs, sp), implies(has(specs, sp), 0 <= wit[cast(sp, int)] && wit[cast(sp, int)] < #i &&
//@                        DvAt(dv, wit[cast(sp, int)]) != nil && DvAt(dv, wit[cast(sp, int)]).spec == sp)))
//@   loop 1 invariant[only C02.Order] forall(k, 0 <= k && k < #i, trig(dv[k], implies(DvAt(dv, k) == nil, base(unresolved) != 0)))
//@   loop 1 invariant[only C02.Order] forall(k, 0 <= k && k < #i, trig(dv[k], iff(fst[k], FirstOfSpec(dv, k))))
''')
def composed(L, n, tag, kind):
    # the composition statement of list L for the first n requests
    pre = f'//@   {kind}[only C02.{L}]'
    return f'''{pre} Len{L}(edits) == off{L}[{n}] && off{L}[0] == 0
{pre} forall(k, 0 <= k && k < {n}, trig(dv[k], 0 <= off{L}[k] && off{L}[k] <= mid{L}[k] && mid{L}[k] <= end{L}[k] && end{L}[k] <= off{L}[{n}]))
{pre} forall(k, 0 <= k && k < {n}, trig(dv[k], mid{L}[k] == off{L}[k] + ite(fst[k], len(DvAt(dv, k).spec.ContainerEdits.{L}), 0)))
{pre} forall(k, 0 <= k && k < {n}, trig(dv[k], end{L}[k] == mid{L}[k] + Dev{L}Len(DvAt(dv, k))))
{pre} forall(k, 1 <= k && k <= {n}, trig(off{L}[k], off{L}[k] == end{L}[k-1]))
{pre} forall(k, true, forall(p, 0 <= k && k < {n} && off{L}[k] <= p && p < mid{L}[k], trig(dv[k], pos(edits.{L}, p),
//@                        edits.{L}[p] == DvAt(dv, k).spec.ContainerEdits.{L}[p - off{L}[k]])))
{pre} forall(k, true, forall(p, 0 <= k && k < {n} && mid{L}[k] <= p && p < end{L}[k], trig(dv[k], pos(edits.{L}, p),
//@                        edits.{L}[p] == DvAt(dv, k).ContainerEdits.{L}[p - mid{L}[k]])))
'''
for L in LISTS:
    a=f'//@   assert[only C02.{L}] at loop 1 body end:'
    body.append(f'''{a} Len{L}(edits) == athead(Len{L}(edits)) + ite(fst[#i - 1], len(DvAt(dv, #i - 1).spec.ContainerEdits.{L}), 0) + Dev{L}Len(DvAt(dv, #i - 1))
{a} off{L}[#i - 1] == athead(Len{L}(edits)) && mid{L}[#i - 1] == off{L}[#i - 1] + ite(fst[#i - 1], len(DvAt(dv, #i - 1).spec.ContainerEdits.{L}), 0) &&
//@                        end{L}[#i - 1] == mid{L}[#i - 1] + Dev{L}Len(DvAt(dv, #i - 1)) && end{L}[#i - 1] == off{L}[#i] &&
//@                        off{L}[#i - 1] <= mid{L}[#i - 1] && mid{L}[#i - 1] <= end{L}[#i - 1] && athead(Len{L}(edits)) <= Len{L}(edits) && 0 <= athead(Len{L}(edits))
{a} forall(p, 0 <= p && p < athead(Len{L}(edits)), trig(pos(edits.{L}, p), edits.{L}[p] == athead(edits.{L}[p])))
{a} forall(p, mid{L}[#i - 1] <= p && p < end{L}[#i - 1], trig(pos(edits.{L}, p),
//@                        edits.{L}[p] == DvAt(dv, #i - 1).ContainerEdits.{L}[p - mid{L}[#i - 1]]))
{a} forall(k, 0 <= k && k < #i - 1, trig(dv[k], implies(DvAt(dv, k) != nil,
//@                        DvAt(dv, k).ContainerEdits.{L} == athead(DvAt(dv, k).ContainerEdits.{L}))))
{a} forall(k, 0 <= k && k < #i - 1, trig(dv[k], implies(DvAt(dv, k) != nil,
//@                        DvAt(dv, k).spec.ContainerEdits.{L} == athead(DvAt(dv, k).spec.ContainerEdits.{L}))))
{a} forall(k, true, forall(q, 0 <= k && k < #i - 1 && DvAt(dv, k) != nil && 0 <= q && q < len(DvAt(dv, k).ContainerEdits.{L}),
//@                        trig(dv[k], pos(DvAt(dv, k).ContainerEdits.{L}, q), DvAt(dv, k).ContainerEdits.{L}[q] == athead(DvAt(dv, k).ContainerEdits.{L}[q]))))
''')
    body.append(composed(L, '#i', L, 'loop 1 invariant'))
    # the statement itself, where the one combined edit list is handed to Apply (every request resolved there)
    body.append(composed(L, 'len(devices)', L, 'assert').replace(f'assert[only C02.{L}]', f'assert[only C02.{L}] at call of Apply:'))
# IntelRdt: the last non-nil setting in composition order wins
body.append('''//@   loop 1 invariant[only C02.IntelRdt] cast(RdtOf(edits), int) == rdtIn[#i] && rdtIn[0] == 0
//@   loop 1 invariant[only C02.IntelRdt] forall(k, 1 <= k && k <= #i, trig(rdtIn[k], rdtIn[k] == rdtOut[k-1]))
//@   loop 1 invariant[only C02.IntelRdt] forall(k, 0 <= k && k < #i, trig(dv[k], rdtOut[k] == RdtStep(dv, fst, rdtIn, k)))
//@   assert[only C02.IntelRdt] at call of Apply: cast(RdtOf(edits), int) == rdtIn[len(devices)] && rdtIn[0] == 0 &&
//@                        forall(k, 1 <= k && k <= len(devices), trig(rdtIn[k], rdtIn[k] == rdtOut[k-1])) &&
//@                        forall(k, 0 <= k && k < len(devices), trig(dv[k], rdtOut[k] == RdtStep(dv, fst, rdtIn, k)))
''')
body.append('''//@   ghostvar applyCalls int = 0
//@   ghost at before call of Apply: applyCalls = applyCalls + 1
//@   assert[only C02.Order] at return: applyCalls <= 1 && implies(err == nil, applyCalls == 1)
//@   assert[only C02.Order] at call of Apply: forall(k, 0 <= k && k < len(devices), trig(dv[k], DvAt(dv, k) != nil && DvAt(dv, k) == c.devices[devices[k]] && iff(fst[k], FirstOfSpec(dv, k))))
//@   assert[only C02] at call of Apply: #arg0 == edits && #arg1 == ociSpec''')
body=''.join(body)
defs+='''//@ fn RdtStep(dv intarray, fst boolarray, rdtIn intarray, k int) int = ite(DvAt(dv, k) == nil, rdtIn[k],
//@        ite(DvAt(dv, k).ContainerEdits.IntelRdt != nil, cast(DvAt(dv, k).ContainerEdits.IntelRdt, int),
//@        ite(fst[k] && DvAt(dv, k).spec.ContainerEdits.IntelRdt != nil, cast(DvAt(dv, k).spec.ContainerEdits.IntelRdt, int), rdtIn[k])))
'''
# replace the two regions
a=s.index('// C02 oracle, from the statement')
b=s.index('//@ func (c *Cache) InjectDevices(ociSpec')
s=s[:a]+defs+s[b:]
a=s.index('// C02: the accumulated edit lists')
b=s.index('\n\n', a)
s=s[:a]+body+s[b:]
# Append: per-list content clauses scoped to their facet
for L in LISTS:
    s=re.sub(r'//@   ensures\[only C02(\.\w+)?\]( implies\(e != nil && o != nil && o\.ContainerEdits != nil && old\(e\.ContainerEdits\) [!=]= nil,\n//@\s+len\(e\.%s\))' % L, r'//@   ensures[only C02.%s]\2' % L, s)
s=s.replace('''//@   ensures[only C02] implies(e != nil && o != nil && o.ContainerEdits != nil,
//@                   e.IntelRdt ==''','''//@   ensures[only C02.IntelRdt] implies(e != nil && o != nil && o.ContainerEdits != nil,
//@                   e.IntelRdt ==''')
open(P,'w').write(s)
