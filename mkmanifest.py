#!/usr/bin/env python3
# Regenerates MANIFEST.json from the table below (run after changing what is claimed).
import json, subprocess
NA = {
 "C09":"Round trip of yaml.v3 / encoding/json writers and the sigs.k8s.io/yaml reader over all UTF-8 strings: third-party encoders/decoders, /repo's part is two calls; a contract could only assume the round trip (DESIGN §4 C09).",
 "C11":"Liveness over inotify histories and goroutine pacing; sequential contracts give only necessary conditions (DESIGN §4 C11).",
 "C17":"Verdict is computed by the third-party gojsonschema interpreter over data files; no function in /repo on which draft-07 semantics could be a postcondition without building a model (DESIGN §4 C17).",
 "C18":"Implication between the Go validator and a JSON Schema evaluated by a third-party engine on json.Marshal output: needs a hand-written model of schema and marshaler (DESIGN §4 C18).",
 "C19":"Observables are process stdout and exit status through cobra/fmt/os.Exit in package main; no per-function contract reaches them (DESIGN §4 C19).",
 "C20":"2-safety over whole histories plus OS resource counts and liveness of goroutine shutdown; per-function lemmas do not add up to the statement (DESIGN §4 C20).",
}
PENDING = "contracts and obligations for this property are still under construction in this session; not claimed until they discharge"
TECH = "contract-based deductive verification: VCs generated over go/ssa of the real code from //@ contracts, discharged by z3 5.1.0 / z3 4.8.12 / cvc5 1.0.3"
CLAIMS = {
 "C14": ("Frame proof: (*ContainerEdits).Apply, (*Device).ApplyEdits, (*Spec).ApplyEdits, InjectDevices, Append, fillMissingInfo, the toOCI conversions, ensureOCIHooks and sortMounts are under contract with the clause `preserves` for the cdi packages: every store, map update, in-place append and callee frame inside these functions is an obligation that the written object is fresh (allocated by this call) whenever the component belongs to a type of tags.cncf.io/container-device-interface/specs-go or pkg/cdi. Hence after injection every field of every cached cdi.Spec/Device/ContainerEdits/DeviceNode/Mount/Hook/IntelRdt object, and every list of pointers or structs hanging off them, has its old value, for any cache content, request and OCI spec; host information is filled into a per-call copy (repeatability). The same run proves Apply's run-time preconditions (no null list entries) from the cache invariant through Append.",
         "Assumed: the runtime-tools/generate functions, sort.Stable and unix.Lstat write no component of a cdi type (assumed `preserves` contracts); refreshIfRequired (trusted) leaves cached cdi objects alone; contents of []string / []uint32 backing arrays and of *uint32/*os.FileMode/*int cells are shared primitive components and are outside the frame claim (no code in /repo writes them; for the generator this is part of the assumption); aliasing between the OCI spec and the cache created by toOCI (shared slices/pointers) is not a change made by injection and is not covered.", "DESIGN.md §4 C14"),
 "C04": ("(*Cache).InjectDevices and (*ContainerEdits).Append are under contract. Postconditions of InjectDevices, for any cache content, any OCI spec and any request list of any length: nil OCI spec ⇒ error and the request list returned; otherwise the returned list is exactly the subsequence of requested names that do not resolve in the index after the refresh — each entry is devices[idx[j]] with idx strictly increasing (order and repetitions kept, ghost witness idx), every miss index occurs, every entry is a miss; if that list is non-empty the result is an error and every heap component of the OCI runtime-spec types is unchanged at every object that existed at entry (no call of Apply on that path: a checked assertion shows Apply is only reached when every requested name resolves; Append writes only the fresh edits object and fresh or own backing arrays). Loop by inductive invariant.",
         "Assumed: refreshIfRequired is a trusted contract (its body, the refresh/watch machinery, is not verified here; that it cannot touch OCI objects is discharged by a type-reachability check over its call graph; that it re-establishes the index well-formedness CacheWF and leaves cached cdi objects alone is assumed), sync.Mutex Lock/Unlock, strings.Join, fmt.Errorf; Apply's contract (frame only) is verified under C14.", "DESIGN.md §4 C04"),
 "C05": ("The in-memory admission pipeline is under contract end to end: newSpec, (*Spec).validate, newDevice, (*Device).validate, (*ContainerEdits).Validate/isEmpty, ValidateEnv, the DeviceNode/Hook/Mount/IntelRdt validators, ValidateSpecAnnotations, ValidateVersion and the version predicates (C06), the vendor/class/device-name validators (C07). Top-level postcondition of newSpec: err = nil iff the pluggable validator accepts and RawSpecOK(raw), where RawSpecOK is transcribed from the statement (released version not below the minimum, kind = valid vendor/class, annotations checked whatever their static type, spec-level edits well-formed, at least one device, every device with a valid name, checked annotations, non-empty well-formed edits, names pairwise distinct, null list entries rejected); every leaf validator has its own iff contract; loops by invariants over any number of devices and entries.",
         "Assumed: yaml.UnmarshalStrict (unknown/duplicate keys, surface syntax) — everything before a *cdi.Spec value exists; the k8s qualified-name and size checks of internal/validation/k8s are an opaque predicate introduced by a trusted contract on k8s.ValidateAnnotations (what is proved is that it is consulted for every annotation map); the pluggable validator is uninterpreted; strings.IndexByte/ContainsAny/Join, errors.New, fmt.Errorf; ReadSpec and WriteSpec wrappers (file I/O) are not under contract, they call newSpec.", "DESIGN.md §4 C05"),
 "C07": ("Every function of pkg/parser is under contract; the grammar (VCName/DevName/QName predicates transcribed from the statement), exact recomposition, the failure results and compose-then-parse are postconditions discharged for all strings of every length and byte content, with loop invariants instead of unrolling; all run-time panic conditions of those functions are discharged under precondition true (totality).",
         "Assumed: strings.SplitN(s,sep,2) for one-byte sep, fmt.Errorf non-nil, UTF-8 range axiom (weakened), gocv's translation, solver unsat answers. No bound on string length.", "DESIGN.md §4 C07, Appendix C"),
 "C15": ("AnnotationKey, AnnotationValue, UpdateAnnotations and ParseAnnotations are under contract: key validity as an iff over all plugin/id strings (k8s name shape, 63 limit, '/'→'_'), value = comma-join whose pieces are exactly the devices (stated through strings.Split's piece function), map frame (error: map untouched; success: exactly one new key, none overwritten), parse: CDI keys exactly once each, every device qualified, error ⇒ empty results, and for a single CDI key the devices are exactly the pieces in order. Loops by invariants; no bound on map size, list length or string length.",
         "Assumed: three algebraic laws of strings.Split(s, \",\") (split-single/first/append, listed in evidence), strings.ReplaceAll/HasPrefix pointwise contracts, determinism of pure string functions, parser contracts (verified under C07). For several CDI keys the per-key contiguity of devices is a proved loop invariant but the concatenation over all keys is not a postcondition.", "DESIGN.md §4 C15"),
 "C06": ("requiresV040…V100, requiredVersion, isValidVersion, MinimumRequiredVersion, ValidateVersion, newVersion and the version methods are under contract: each requiresV0x0 equals the statement's feature predicate F0x0 (existential over device index and list position, hence placement- and order-independent by form), requiredVersion = max over the version table (table content taken from the package initialiser, calls through function values resolved by case analysis), ValidateVersion = nil iff released and not lower than the minimum. All for any number of devices and entries.",
         "Assumed: semver.Compare on the nine released constants (table produced by executing golang.org/x/mod/semver), strings.TrimPrefix/Contains/SplitN contracts, closed world for function values of type requiredFunc, gocv's heap model.", "DESIGN.md §4 C06"),
}
m = {
 "version": 1,
 "setup_cmd": "./setup.sh",
 "hooks": {
  "guard": "verif",
  "enable": "go build tag `verif` (-tags=verif): the only guarded additions are comment-only contracts_verif.go files; gocv loads /repo with -tags=verif",
  "baseline_off_cmd": "for m in . specs-go schema; do (cd /repo/$m && GOFLAGS=-mod=mod go test -json -vet=off -count=1 -timeout 25m ./...); done",
  "source_commits": subprocess.run(["git","-C","/repo","log","--format=%h","--grep=^verif:"],capture_output=True,text=True).stdout.split(),
  "add_only": True
 },
 "engines": [
  {"name":"gocv","path":"/verif/gocv","serves_properties":sorted(CLAIMS),
   "kind_free_text":"verification-condition generator over go/ssa of /repo's working tree (contracts as //@ comments in contracts_verif.go files behind build tag verif), obligations discharged by z3 5.1.0 / z3 4.8.12 / cvc5 1.0.3; sat models replayed on the real code with go test -overlay"}
 ],
 "checks": [
  {"property_id":k, "quick_cmd":"./check %s quick"%k, "thorough_cmd":"./check %s thorough"%k,
   "evidence_file":"/verif/evidence/%s.json"%k, "replay_cmd_template":"/verif/bin/gocv replay {path}", "engine":"gocv",
   "level_claimed":{"category":"proof","text":v[0],"design_ref":v[2]}, "level_note":v[1], "technique":TECH}
  for k,v in sorted(CLAIMS.items())],
 "notes":"See DESIGN.md. Checks rebuild the SSA of /repo's current working tree on every run.",
 "not_applicable": sorted([{"property_id":k,"reason":v} for k,v in NA.items()] +
   [{"property_id":"C%02d"%i,"reason":PENDING} for i in range(1,21) if "C%02d"%i not in NA and "C%02d"%i not in CLAIMS], key=lambda x:x["property_id"])
}
json.dump(m, open("/verif/MANIFEST.json","w"), indent=1)
print("claimed:", sorted(CLAIMS))
