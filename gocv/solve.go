package main

import (
	"bytes"
	"sync/atomic"
	"regexp"
	"context"
	"fmt"
	"os"
	"os/exec"
	"path/filepath"
	"strings"
	"sync"
	"time"
)

type solverSpec struct {
	name string
	args func(file string, timeoutS int) []string
}

var solvers = []solverSpec{
	{"z3-5.1.0", func(f string, t int) []string { return []string{"z3-new", fmt.Sprintf("-T:%d", t), f} }},
	{"z3-4.8.12", func(f string, t int) []string { return []string{"z3", fmt.Sprintf("-T:%d", t), f} }},
	{"cvc5-1.0.3", func(f string, t int) []string {
		return []string{"cvc5", "--incremental", fmt.Sprintf("--tlimit=%d", t*1000), f}
	}},
}

func (o *Obligation) smt(models bool) string {
	var b strings.Builder
	if models {
		b.WriteString("(set-option :produce-models true)\n")
	}
	b.WriteString("(set-logic ALL)\n")
	var body strings.Builder
	for _, l := range o.Lines {
		body.WriteString(l)
		body.WriteString("\n")
	}
	if !o.Cover {
		body.WriteString("(assert (not ")
		body.WriteString(o.Goal.S)
		body.WriteString("))\n")
	}
	b.WriteString(o.unit.pre.render(body.String()))
	b.WriteString(body.String())
	b.WriteString("(check-sat)\n")
	return b.String()
}

func fileSafe(s string) string {
	var b strings.Builder
	for _, c := range s {
		switch {
		case c >= 'a' && c <= 'z', c >= 'A' && c <= 'Z', c >= '0' && c <= '9', c == '.', c == '-', c == '_', c == '#', c == '@':
			b.WriteRune(c)
		default:
			b.WriteRune('_')
		}
	}
	r := b.String()
	if len(r) > 150 {
		r = r[:150]
	}
	return r
}

func runSolver(spec solverSpec, file string, timeoutS int) (string, string, int64) {
	return runSolverCtx(context.Background(), spec, file, timeoutS)
}

func runSolverCtx(parent context.Context, spec solverSpec, file string, timeoutS int) (string, string, int64) {
	args := spec.args(file, timeoutS)
	ctx, cancel := context.WithTimeout(parent, time.Duration(timeoutS+3)*time.Second)
	defer cancel()
	cmd := exec.CommandContext(ctx, args[0], args[1:]...)
	var out bytes.Buffer
	cmd.Stdout = &out
	cmd.Stderr = &out
	t0 := time.Now()
	_ = cmd.Run()
	ms := time.Since(t0).Milliseconds()
	text := out.String()
	first := strings.TrimSpace(strings.SplitN(text, "\n", 2)[0])
	switch first {
	case "unsat", "sat", "unknown":
		return first, text, ms
	case "timeout":
		return "timeout", text, ms
	}
	if ctx.Err() != nil || strings.Contains(text, "timeout") || strings.Contains(text, "interrupted") {
		return "timeout", text, ms
	}
	return "error", text, ms
}

type solveOpts struct {
	outDir   string
	timeoutS int
	all      bool // run every solver on every obligation (thorough)
	jobs     int
	seed     int
	failFast bool
}


// raceSolvers runs the portfolio concurrently and keeps the first definite answer.
func raceSolvers(o *Obligation, file string, tmo int, want string) []string {
	type res struct {
		name, r, out string
		ms           int64
	}
	ctx, cancel := context.WithCancel(context.Background())
	defer cancel()
	var specs []solverSpec
	for _, sd := range []int{1, 2} {
		sd := sd
		specs = append(specs, solverSpec{fmt.Sprintf("z3-5.1.0(seed %d)", sd), func(f string, t int) []string {
			return []string{"z3-new", fmt.Sprintf("-T:%d", t), fmt.Sprintf("smt.random_seed=%d", sd), fmt.Sprintf("sat.random_seed=%d", sd), f}
		}})
	}
	specs = append(specs, solvers[1])
	// the same goal with fewer hypotheses (an "unsat" carries over, assumptions are only dropped; a "sat" does not
	// and is discarded below): the definitions the goal
	// depends on and the assumptions that share a symbol with it
	if cone := coneOfInfluence(o.smt(false), 1); cone != "" {
		f3 := file + ".cone.smt2"
		_ = os.WriteFile(f3, []byte(cone), 0o644)
		defer os.Remove(f3)
		for _, sd := range []int{0, 1} {
			sd := sd
			specs = append(specs, solverSpec{fmt.Sprintf("z3-5.1.0(relevant hypotheses, seed %d)", sd), func(f string, t int) []string {
				return []string{"z3-new", fmt.Sprintf("-T:%d", t), fmt.Sprintf("smt.random_seed=%d", sd), f3}
			}})
		}
	}
	// cvc5 reads a copy without z3 options
	f2 := file + ".cvc5.smt2"
	_ = os.WriteFile(f2, []byte(o.smt(false)), 0o644)
	defer os.Remove(f2)
	specs = append(specs, solverSpec{solvers[2].name, func(f string, t int) []string { return solvers[2].args(f2, t) }})
	ch := make(chan res, len(specs))
	for _, sp := range specs {
		go func(sp solverSpec) {
			r, out, ms := runSolverCtx(ctx, sp, file, tmo)
			ch <- res{sp.name, r, out, ms}
		}(sp)
	}
	var tried []string
	var maxMs int64
	for range specs {
		x := <-ch
		if x.ms > maxMs {
			maxMs = x.ms
		}
		if x.r == "sat" && strings.Contains(x.name, "relevant hypotheses") {
			// with hypotheses dropped only a refutation ("unsat") carries over to the full goal
			x.r = "unknown"
		}
		if x.r == "unsat" || x.r == "sat" {
			tried = append(tried, x.name+":"+x.r)
			o.record(x.name, x.r, x.out, want)
			cancel()
			break
		}
		if ctx.Err() == nil {
			tried = append(tried, x.name+":"+x.r)
			o.record(x.name, x.r, x.out, want)
		}
	}
	o.Millis += maxMs
	return tried
}

// discharge runs the portfolio on every obligation.
func discharge(obls []*Obligation, opt solveOpts) {
	_ = os.MkdirAll(opt.outDir, 0o755)
	var wg sync.WaitGroup
	sem := make(chan struct{}, opt.jobs)
	for i, o := range obls {
		if o.Decided {
			continue
		}
		wg.Add(1)
		sem <- struct{}{}
		go func(i int, o *Obligation) {
			defer wg.Done()
			defer func() { <-sem }()
			file := filepath.Join(opt.outDir, fmt.Sprintf("%04d_%s.smt2", i, fileSafe(o.Name)))
			text := o.smt(false)
			if opt.seed != 0 {
				text = fmt.Sprintf("(set-option :smt.random_seed %d)\n(set-option :sat.random_seed %d)\n", opt.seed, opt.seed) + text
			}
			if err := os.WriteFile(file, []byte(text), 0o644); err != nil {
				o.Result, o.Output = "error", err.Error()
				return
			}
			o.File = file
			want := "unsat"
			if o.Cover {
				want = "sat"
			}
			var results []string
			tmo := opt.timeoutS
			if o.Cover {
				tmo = 3
			}
			if !o.Cover {
				// stage 1: the default configuration with a short budget decides almost everything
				quick := 3
				if quick > tmo {
					quick = tmo
				}
				r, out, ms := runSolver(solvers[0], file, quick)
				o.Millis += ms
				results = append(results, solvers[0].name+":"+r)
				o.record(solvers[0].name, r, out, want)
				if o.Result == "unsat" || o.Result == "sat" {
					o.Tried = results
					return
				}
				// stage 2 runs after every obligation had its quick attempt (so that the races get the cores)
				o.Tried = results
				hardMu.Lock()
				hard = append(hard, hardItem{o, file, tmo, want})
				hardMu.Unlock()
				return
			}
			for si, s := range solvers {
				if o.Cover && si > 0 {
					break
				}
				if opt.seed != 0 && si == 2 {
					// cvc5 does not know the z3 seed options
					text2 := o.smt(false)
					f2 := file + ".cvc5.smt2"
					_ = os.WriteFile(f2, []byte(text2), 0o644)
					r, out, ms := runSolver(s, f2, tmo)
					_ = os.Remove(f2)
					results = append(results, s.name+":"+r)
					o.Millis += ms
					o.record(s.name, r, out, want)
				} else {
					r, out, ms := runSolver(s, file, tmo)
					results = append(results, s.name+":"+r)
					o.Millis += ms
					o.record(s.name, r, out, want)
				}
				if o.Cover {
					// a cover check only fails when a solver refutes satisfiability
					if o.Result == "sat" || o.Result == "unsat" {
						if !opt.all {
							break
						}
					}
					continue
				}
				if o.Result == "unsat" && !opt.all {
					break
				}
				if o.Result == "sat" && !opt.all {
					break
				}
			}
			o.Tried = results
		}(i, o)
	}
	wg.Wait()
	// stage 2: instantiation-heavy goals vary from a fraction of a second to a timeout with the solver's
	// random seed and with irrelevant hypotheses; race several configurations, the first answer wins
	hsem := make(chan struct{}, 4)
	var failed int32
	for _, h := range hard {
		if opt.failFast && atomic.LoadInt32(&failed) >= 8 {
			// self-test runs only need to know that the change is reported: once eight obligations have
			// failed for good the rest is not raced (they stay undecided and are reported as such)
			h.o.Tried = append(h.o.Tried, "not raced (fail-fast)")
			continue
		}
		wg.Add(1)
		hsem <- struct{}{}
		go func(h hardItem) {
			defer wg.Done()
			defer func() { <-hsem }()
			rs := raceSolvers(h.o, h.file, 3*h.tmo, h.want)
			h.o.Tried = append(h.o.Tried, rs...)
			if !h.o.ok() {
				atomic.AddInt32(&failed, 1)
			}
		}(h)
	}
	wg.Wait()
	hard = nil
	if opt.all {
		// thorough: every discharged obligation is also given to the two other solvers for a short time; a
		// definite answer that differs is a solver disagreement (reported as a machinery defect)
		csem := make(chan struct{}, opt.jobs)
		for _, o := range obls {
			if o.Cover || o.Result != "unsat" || o.File == "" {
				continue
			}
			wg.Add(1)
			csem <- struct{}{}
			go func(o *Obligation) {
				defer wg.Done()
				defer func() { <-csem }()
				f2 := o.File + ".x.smt2"
				_ = os.WriteFile(f2, []byte(o.smt(false)), 0o644)
				defer os.Remove(f2)
				for _, s := range solvers {
					if strings.HasPrefix(o.Solver, s.name) {
						continue
					}
					r, _, ms := runSolver(s, f2, 5)
					o.Millis += ms
					o.AllResults = append(o.AllResults, s.name+"(cross-check):"+r)
					if r == "sat" {
						o.Disagree = true
					}
				}
			}(o)
		}
		wg.Wait()
	}
}

type hardItem struct {
	o    *Obligation
	file string
	tmo  int
	want string
}

var hard []hardItem
var hardMu sync.Mutex

func (o *Obligation) record(solver, r, out, want string) {
	o.AllResults = append(o.AllResults, solver+":"+r)
	switch {
	case r == "unsat" || r == "sat":
		if o.Result == "unsat" || o.Result == "sat" {
			if o.Result != r {
				o.Disagree = true
			}
			return
		}
		o.Result, o.Solver, o.Output = r, solver, out
	case o.Result == "" || o.Result == "error":
		o.Result, o.Solver, o.Output = r, solver, out
	case o.Result == "timeout" && r == "unknown":
		o.Result, o.Solver, o.Output = r, solver, out
	}
}

// ok reports whether the obligation is discharged (or, for covers, not refuted).
func (o *Obligation) ok() bool {
	if o.Cover {
		return o.Result != "unsat"
	}
	return o.Result == "unsat"
}

var tokRe = regexp.MustCompile(`[A-Za-z_][A-Za-z0-9_!?.]*`)
var defRe = regexp.MustCompile(`^\(assert \(= ([A-Za-z_][A-Za-z0-9_!?.]*) `)
var smtWords = map[string]bool{"assert": true, "forall": true, "exists": true, "select": true, "store": true, "ite": true, "and": true, "or": true, "not": true,
	"let": true, "Int": true, "Bool": true, "Array": true, "Str": true, "Slice": true, "true": true, "false": true, "pattern": true, "qid": true, "as": true, "const": true, "distinct": true}

// coneOfInfluence keeps, of the assumptions that follow the prelude, the definitions (assert (= c e)) of the
// constants the goal depends on (transitively) and, `depth` times, the assumptions sharing an uncommon symbol
// with what has been kept. The result is a weaker set of hypotheses for the same goal.
func coneOfInfluence(text string, depth int) string {
	lines := strings.Split(text, "\n")
	gi := -1
	first := -1
	for i, l := range lines {
		if strings.HasPrefix(l, "(assert") {
			gi = i
		}
		if first < 0 && strings.HasPrefix(l, "(declare-const p_") {
			first = i
		}
	}
	if gi < 0 || first < 0 {
		return ""
	}
	toks := func(l string) map[string]bool {
		m := map[string]bool{}
		for _, t := range tokRe.FindAllString(l, -1) {
			if !smtWords[t] {
				m[t] = true
			}
		}
		return m
	}
	var asserts []int
	cnt := map[string]int{}
	lt := map[int]map[string]bool{}
	defs := map[string][]int{}
	for i := first; i < gi; i++ {
		if !strings.HasPrefix(lines[i], "(assert") {
			continue
		}
		asserts = append(asserts, i)
		lt[i] = toks(lines[i])
		for t := range lt[i] {
			cnt[t]++
		}
		if m := defRe.FindStringSubmatch(lines[i]); m != nil {
			defs[m[1]] = append(defs[m[1]], i)
		}
	}
	common := func(t string) bool { return cnt[t]*4 > len(asserts) }
	need := map[string]bool{}
	for t := range toks(lines[gi]) {
		if !common(t) {
			need[t] = true
		}
	}
	keep := map[int]bool{}
	for d := 0; ; d++ {
		for changed := true; changed; {
			changed = false
			for s := range need {
				for _, i := range defs[s] {
					if !keep[i] {
						keep[i] = true
						for t := range lt[i] {
							if !common(t) && !need[t] {
								need[t] = true
								changed = true
							}
						}
					}
				}
			}
		}
		if d == depth {
			break
		}
		add := map[string]bool{}
		for _, i := range asserts {
			if keep[i] {
				continue
			}
			for t := range lt[i] {
				if need[t] {
					keep[i] = true
					break
				}
			}
			if keep[i] {
				for t := range lt[i] {
					if !common(t) {
						add[t] = true
					}
				}
			}
		}
		for t := range add {
			need[t] = true
		}
	}
	var b strings.Builder
	for i, l := range lines {
		if i >= first && i < gi && strings.HasPrefix(l, "(assert") && !keep[i] {
			continue
		}
		b.WriteString(l)
		b.WriteString("\n")
	}
	return b.String()
}
