package main

import (
	"bytes"
	"context"
	"fmt"
	"os"
	"os/exec"
	"path/filepath"
	"strings"
	"sync"
	"time"
)

type solverSpec struct {
	name string
	args func(file string, timeoutS int) []string
}

var solvers = []solverSpec{
	{"z3-5.1.0", func(f string, t int) []string { return []string{"z3-new", fmt.Sprintf("-T:%d", t), f} }},
	{"z3-4.8.12", func(f string, t int) []string { return []string{"z3", fmt.Sprintf("-T:%d", t), f} }},
	{"cvc5-1.0.3", func(f string, t int) []string {
		return []string{"cvc5", "--incremental", fmt.Sprintf("--tlimit=%d", t*1000), f}
	}},
}

func (o *Obligation) smt(models bool) string {
	var b strings.Builder
	if models {
		b.WriteString("(set-option :produce-models true)\n")
	}
	b.WriteString("(set-logic ALL)\n")
	var body strings.Builder
	for _, l := range o.Lines {
		body.WriteString(l)
		body.WriteString("\n")
	}
	if !o.Cover {
		body.WriteString("(assert (not ")
		body.WriteString(o.Goal.S)
		body.WriteString("))\n")
	}
	b.WriteString(o.unit.pre.render(body.String()))
	b.WriteString(body.String())
	b.WriteString("(check-sat)\n")
	return b.String()
}

func fileSafe(s string) string {
	var b strings.Builder
	for _, c := range s {
		switch {
		case c >= 'a' && c <= 'z', c >= 'A' && c <= 'Z', c >= '0' && c <= '9', c == '.', c == '-', c == '_', c == '#', c == '@':
			b.WriteRune(c)
		default:
			b.WriteRune('_')
		}
	}
	r := b.String()
	if len(r) > 150 {
		r = r[:150]
	}
	return r
}

func runSolver(spec solverSpec, file string, timeoutS int) (string, string, int64) {
	args := spec.args(file, timeoutS)
	ctx, cancel := context.WithTimeout(context.Background(), time.Duration(timeoutS+3)*time.Second)
	defer cancel()
	cmd := exec.CommandContext(ctx, args[0], args[1:]...)
	var out bytes.Buffer
	cmd.Stdout = &out
	cmd.Stderr = &out
	t0 := time.Now()
	_ = cmd.Run()
	ms := time.Since(t0).Milliseconds()
	text := out.String()
	first := strings.TrimSpace(strings.SplitN(text, "\n", 2)[0])
	switch first {
	case "unsat", "sat", "unknown":
		return first, text, ms
	case "timeout":
		return "timeout", text, ms
	}
	if ctx.Err() != nil || strings.Contains(text, "timeout") || strings.Contains(text, "interrupted") {
		return "timeout", text, ms
	}
	return "error", text, ms
}

type solveOpts struct {
	outDir   string
	timeoutS int
	all      bool // run every solver on every obligation (thorough)
	jobs     int
	seed     int
}

// discharge runs the portfolio on every obligation.
func discharge(obls []*Obligation, opt solveOpts) {
	_ = os.MkdirAll(opt.outDir, 0o755)
	var wg sync.WaitGroup
	sem := make(chan struct{}, opt.jobs)
	for i, o := range obls {
		if o.Decided {
			continue
		}
		wg.Add(1)
		sem <- struct{}{}
		go func(i int, o *Obligation) {
			defer wg.Done()
			defer func() { <-sem }()
			file := filepath.Join(opt.outDir, fmt.Sprintf("%04d_%s.smt2", i, fileSafe(o.Name)))
			text := o.smt(false)
			if opt.seed != 0 {
				text = fmt.Sprintf("(set-option :smt.random_seed %d)\n(set-option :sat.random_seed %d)\n", opt.seed, opt.seed) + text
			}
			if err := os.WriteFile(file, []byte(text), 0o644); err != nil {
				o.Result, o.Output = "error", err.Error()
				return
			}
			o.File = file
			want := "unsat"
			if o.Cover {
				want = "sat"
			}
			var results []string
			tmo := opt.timeoutS
			if o.Cover {
				tmo = 3
			}
			for si, s := range solvers {
				if o.Cover && si > 0 {
					break
				}
				if opt.seed != 0 && si == 2 {
					// cvc5 does not know the z3 seed options
					text2 := o.smt(false)
					f2 := file + ".cvc5.smt2"
					_ = os.WriteFile(f2, []byte(text2), 0o644)
					r, out, ms := runSolver(s, f2, tmo)
					_ = os.Remove(f2)
					results = append(results, s.name+":"+r)
					o.Millis += ms
					o.record(s.name, r, out, want)
				} else {
					r, out, ms := runSolver(s, file, tmo)
					results = append(results, s.name+":"+r)
					o.Millis += ms
					o.record(s.name, r, out, want)
				}
				if o.Cover {
					// a cover check only fails when a solver refutes satisfiability
					if o.Result == "sat" || o.Result == "unsat" {
						if !opt.all {
							break
						}
					}
					continue
				}
				if o.Result == "unsat" && !opt.all {
					break
				}
				if o.Result == "sat" && !opt.all {
					break
				}
			}
			o.Tried = results
		}(i, o)
	}
	wg.Wait()
}

func (o *Obligation) record(solver, r, out, want string) {
	o.AllResults = append(o.AllResults, solver+":"+r)
	switch {
	case r == "unsat" || r == "sat":
		if o.Result == "unsat" || o.Result == "sat" {
			if o.Result != r {
				o.Disagree = true
			}
			return
		}
		o.Result, o.Solver, o.Output = r, solver, out
	case o.Result == "" || o.Result == "error":
		o.Result, o.Solver, o.Output = r, solver, out
	case o.Result == "timeout" && r == "unknown":
		o.Result, o.Solver, o.Output = r, solver, out
	}
}

// ok reports whether the obligation is discharged (or, for covers, not refuted).
func (o *Obligation) ok() bool {
	if o.Cover {
		return o.Result != "unsat"
	}
	return o.Result == "unsat"
}
