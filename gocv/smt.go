package main

import (
	"fmt"
	"go/types"
	"sort"
	"strings"
)

// Term is an SMT-LIB term together with its sort and (when known) the Go type
// of the value it denotes. Terms are plain strings: gocv never simplifies,
// it only builds.
type Term struct {
	S    string
	Sort string
	T    types.Type
	Pat  string // E-matching trigger to attach to the enclosing quantifier (set by trig())
}

const (
	SInt   = "Int"
	SBool  = "Bool"
	SStr   = "Str"
	SSlice = "Slice"
)

func mk(s, sort string) Term                { return Term{S: s, Sort: sort} }
func mkT(s, sort string, t types.Type) Term { return Term{S: s, Sort: sort, T: t} }

func app(op string, sort string, args ...Term) Term {
	var b strings.Builder
	b.WriteString("(")
	b.WriteString(op)
	for _, a := range args {
		b.WriteString(" ")
		b.WriteString(a.S)
	}
	b.WriteString(")")
	return Term{S: b.String(), Sort: sort}
}

func intLit(n int64) Term {
	if n < 0 {
		return mk(fmt.Sprintf("(- %d)", -n), SInt)
	}
	return mk(fmt.Sprintf("%d", n), SInt)
}

func bigLit(s string) Term {
	if strings.HasPrefix(s, "-") {
		return mk("(- "+s[1:]+")", SInt)
	}
	return mk(s, SInt)
}

var (
	tTrue  = mk("true", SBool)
	tFalse = mk("false", SBool)
)

func boolLit(b bool) Term {
	if b {
		return tTrue
	}
	return tFalse
}

func and(ts ...Term) Term {
	var xs []Term
	for _, t := range ts {
		if t.S == "true" {
			continue
		}
		if t.S == "false" {
			return tFalse
		}
		xs = append(xs, t)
	}
	switch len(xs) {
	case 0:
		return tTrue
	case 1:
		return xs[0]
	}
	return app("and", SBool, xs...)
}

func or(ts ...Term) Term {
	var xs []Term
	for _, t := range ts {
		if t.S == "false" {
			continue
		}
		if t.S == "true" {
			return tTrue
		}
		xs = append(xs, t)
	}
	switch len(xs) {
	case 0:
		return tFalse
	case 1:
		return xs[0]
	}
	return app("or", SBool, xs...)
}

func not(t Term) Term {
	if t.S == "true" {
		return tFalse
	}
	if t.S == "false" {
		return tTrue
	}
	return app("not", SBool, t)
}

func implies(a, b Term) Term {
	if a.S == "true" {
		return b
	}
	return app("=>", SBool, a, b)
}

func eq(a, b Term) Term            { return app("=", SBool, a, b) }
func ite(c, a, b Term) Term        { r := app("ite", a.Sort, c, a, b); r.T = a.T; return r }
func lt(a, b Term) Term            { return app("<", SBool, a, b) }
func le(a, b Term) Term            { return app("<=", SBool, a, b) }
func add(a, b Term) Term           { return app("+", SInt, a, b) }
func sub(a, b Term) Term           { return app("-", SInt, a, b) }
func sel(a, i Term, s string) Term { return app("select", s, a, i) }
func store(a, i, v Term) Term      { return app("store", a.Sort, a, i, v) }

func arraySort(k, v string) string { return "(Array " + k + " " + v + ")" }

// arrayElemSort returns the value sort of an "(Array K V)" sort string.
func arrayElemSort(s string) string {
	// parse "(Array K V)" where K and V may themselves be parenthesised
	inner := strings.TrimSuffix(strings.TrimPrefix(s, "(Array "), ")")
	// skip K
	depth := 0
	for i, c := range inner {
		switch c {
		case '(':
			depth++
		case ')':
			depth--
		case ' ':
			if depth == 0 {
				return inner[i+1:]
			}
		}
	}
	panic("arrayElemSort: " + s)
}

func arrayKeySort(s string) string {
	inner := strings.TrimSuffix(strings.TrimPrefix(s, "(Array "), ")")
	depth := 0
	for i, c := range inner {
		switch c {
		case '(':
			depth++
		case ')':
			depth--
		case ' ':
			if depth == 0 {
				return inner[:i]
			}
		}
	}
	panic("arrayKeySort: " + s)
}

// Prelude collects the global declarations of one verification unit.
type Prelude struct {
	sorts   []string // datatype / sort declarations in order
	sortSet map[string]bool
	funs    []string // declare-fun / declare-const lines
	funSet  map[string]bool
	axioms  []string
	axSubj  []string
	axSet   map[string]bool
}

func newPrelude() *Prelude {
	return &Prelude{sortSet: map[string]bool{}, funSet: map[string]bool{}, axSet: map[string]bool{}}
}

func (p *Prelude) declSort(name, decl string) {
	if p.sortSet[name] {
		return
	}
	p.sortSet[name] = true
	p.sorts = append(p.sorts, decl)
}

func (p *Prelude) declFun(name, decl string) {
	if p.funSet[name] {
		return
	}
	p.funSet[name] = true
	p.funs = append(p.funs, decl)
}

func (p *Prelude) declConst(name, sort string) {
	p.declFun(name, fmt.Sprintf("(declare-const %s %s)", name, sort))
}

func (p *Prelude) axiom(a string) { p.axiomFor("", a) }

// axiomFor adds an axiom that is only relevant to queries mentioning subject.
func (p *Prelude) axiomFor(subject, a string) {
	if p.axSet[a] {
		return
	}
	p.axSet[a] = true
	p.axioms = append(p.axioms, a)
	p.axSubj = append(p.axSubj, subject)
}

// render emits the declarations and the axioms relevant to body.
func (p *Prelude) render(body string) string {
	var b strings.Builder
	b.WriteString(baseDecls)
	for _, s := range p.sorts {
		b.WriteString(s)
		b.WriteString("\n")
	}
	for _, s := range p.funs {
		b.WriteString(s)
		b.WriteString("\n")
	}
	var unit strings.Builder
	for i, s := range p.axioms {
		if subj := p.axSubj[i]; subj != "" {
			// several subjects separated by '|': relevant when any of them occurs
			hit := false
			for _, sj := range strings.Split(subj, "|") {
				if strings.Contains(body, sj) {
					hit = true
					break
				}
			}
			if !hit {
				continue
			}
		}
		unit.WriteString("(assert ")
		unit.WriteString(s)
		unit.WriteString(")\n")
	}
	all := body + unit.String()
	for _, a := range baseAxioms {
		if strings.Contains(all, a.subject) {
			b.WriteString(a.text)
			b.WriteString("\n")
		}
	}
	b.WriteString(unit.String())
	return b.String()
}

const baseDecls = `(declare-sort Str 0)
(declare-fun slen (Str) Int)
(declare-fun sat (Str Int) Int)
(declare-fun scat (Str Str) Str)
(declare-fun ssub (Str Int Int) Str)
(declare-fun sdiff (Str Str) Int)
(declare-fun seq (Str Str) Bool)
(declare-const sempty Str)
(declare-datatypes ((Slice 0)) (((mkslice (sbase Int) (soff Int) (slen_ Int) (scap Int)))))
(declare-fun own (Int) Int)
(declare-fun rkind (Int) Int)
(declare-fun sidx (Slice Int) Int)
(assert (forall ((s Slice) (j Int)) (! (= (sidx s j) (+ (soff s) j)) :pattern ((sidx s j)))))
(assert (= (own 0) 0))
(assert (= (slen sempty) 0))
(assert (forall ((s Str)) (! (and (>= (slen s) 0) (<= (slen s) 9223372036854775807)) :pattern ((slen s)))))
(assert (forall ((s Str) (i Int)) (! (and (<= 0 (sat s i)) (<= (sat s i) 255)) :pattern ((sat s i)))))
`

// baseAxioms are included in a query only when their subject symbol occurs in it
// (an axiom about a function that does not occur cannot contribute to a refutation,
// and leaving it out lets the solvers build models for failed obligations).
var baseAxioms = []struct{ subject, text string }{
	{"(scat ", `(assert (forall ((a Str) (b Str)) (! (= (slen (scat a b)) (+ (slen a) (slen b))) :pattern ((scat a b)))))`},
	{"(scat ", `(assert (forall ((a Str) (b Str) (i Int)) (! (=> (and (<= 0 i) (< i (+ (slen a) (slen b)))) (= (sat (scat a b) i) (ite (< i (slen a)) (sat a i) (sat b (- i (slen a)))))) :pattern ((sat (scat a b) i)))))`},
	{"(scat ", `(assert (forall ((a Str) (b Str) (i Int)) (! (=> (and (<= 0 i) (< i (slen a))) (= (sat (scat a b) i) (sat a i))) :pattern ((scat a b) (sat a i)))))`},
	{"(scat ", `(assert (forall ((a Str) (b Str) (i Int)) (! (=> (and (<= 0 i) (< i (slen b))) (= (sat (scat a b) (+ (slen a) i)) (sat b i))) :pattern ((scat a b) (sat b i)))))`},
	{"(ssub ", `(assert (forall ((s Str) (lo Int) (hi Int) (i Int)) (! (=> (and (<= 0 lo) (<= lo i) (< i hi) (<= hi (slen s))) (= (sat (ssub s lo hi) (- i lo)) (sat s i))) :pattern ((ssub s lo hi) (sat s i)))))`},
	{"(ssub ", `(assert (forall ((s Str) (lo Int) (hi Int)) (! (=> (and (<= 0 lo) (<= lo hi) (<= hi (slen s))) (= (slen (ssub s lo hi)) (- hi lo))) :pattern ((ssub s lo hi)))))`},
	{"(ssub ", `(assert (forall ((s Str) (lo Int) (hi Int) (i Int)) (! (=> (and (<= 0 lo) (<= lo hi) (<= hi (slen s)) (<= 0 i) (< i (- hi lo))) (= (sat (ssub s lo hi) i) (sat s (+ lo i)))) :pattern ((sat (ssub s lo hi) i)))))`},
	{"(seq ", `(assert (forall ((a Str) (b Str)) (! (and (= (seq a b) (= a b)) (or (= a b) (not (= (slen a) (slen b))) (and (<= 0 (sdiff a b)) (< (sdiff a b) (slen a)) (not (= (sat a (sdiff a b)) (sat b (sdiff a b))))))) :pattern ((seq a b)))))`},
	{"(sdiff ", `(assert (forall ((a Str) (b Str)) (! (or (= a b) (not (= (slen a) (slen b))) (and (<= 0 (sdiff a b)) (< (sdiff a b) (slen a)) (not (= (sat a (sdiff a b)) (sat b (sdiff a b)))))) :pattern ((sdiff a b)))))`},
}

func sortedKeys[V any](m map[string]V) []string {
	ks := make([]string, 0, len(m))
	for k := range m {
		ks = append(ks, k)
	}
	sort.Strings(ks)
	return ks
}
