package main

import (
	"fmt"
	"go/token"
	"go/types"
	"os"
	"runtime/debug"
	"sort"
	"strings"

	"golang.org/x/tools/go/ssa"
)

// verifyFunc generates all obligations of one function.
func (e *Engine) verifyFunc(fn *ssa.Function, c *Contract, sweep bool) (u *Unit, err error) {
	u = &Unit{eng: e, fn: fn, key: funcKey(fn), contract: c, pre: newPrelude(), maxPaths: 6000, sweep: sweep,
		usedExternal: map[string]bool{}, usedContracts: map[string]bool{}}
	if pp := funcPkgPath(fn); pp != "" {
		if i := strings.LastIndex(pp, "/"); i >= 0 {
			u.key = pp[i+1:] + "." + u.key
		} else {
			u.key = pp + "." + u.key
		}
	}
	defer func() {
		if r := recover(); r != nil {
			switch x := r.(type) {
			case unsupportedErr:
				err = x
			case evalErr:
				if os.Getenv("GOCV_DEBUG") != "" {
					fmt.Fprintf(os.Stderr, "evalErr %s\n%s\n", x.msg, debug.Stack())
				}
				err = fmt.Errorf("binding: %s", x.msg)
			default:
				panic(r)
			}
		}
	}()
	if fn.Blocks == nil {
		return u, unsupported("no body")
	}
	if c != nil && c.Trusted {
		if c.TypeFrame {
			u.typeFrameCheck()
		}
		u.note(u.key + ": trusted contract, body not verified")
		return u, nil
	}
	if fn.Recover != nil {
		u.note(u.key + ": recover block is not entered (absence of panics is proved separately)")
	}
	if c != nil && c.DirectPkg != "" {
		u.directWritesCheck()
	}
	u.findLoops()
	st := &State{vals: map[ssa.Value]Term{}, locs: map[ssa.Value]Loc{}, tuples: map[ssa.Value][]Term{}, heap: map[string]Term{},
		iters: map[ssa.Value]*iterState{}, ghost: map[string]Term{}, variant: map[*ssa.BasicBlock]Term{}, entered: map[*ssa.BasicBlock]bool{}}
	u.pre.declConst("alloc!0", SInt)
	st.alloc = mk("alloc!0", SInt)
	u.pre.axiom("(<= 0 alloc!0)")
	u.params = map[string]Term{}
	for i, p := range fn.Params {
		n := fmt.Sprintf("p_%s", sanitize(p.Name()))
		if _, dup := u.pre.funSet[n]; dup {
			n = fmt.Sprintf("p%d_%s", i, sanitize(p.Name()))
		}
		u.pre.declConst(n, u.sortOf(p.Type()))
		t := mkT(n, u.sortOf(p.Type()), p.Type())
		st.vals[p] = t
		st.assume(u.typeFacts(t, p.Type()))
		u.knownRef(st, t, p.Type())
		if c != nil && i < len(c.Params) {
			u.params[c.Params[i]] = t
		}
		u.params["@"+p.Name()] = t
	}
	if c != nil && len(c.Params) != len(fn.Params) {
		return u, fmt.Errorf("binding: contract of %s names %d parameters, the function has %d", u.key, len(c.Params), len(fn.Params))
	}
	for _, fv := range fn.FreeVars {
		n := fmt.Sprintf("fv_%s", sanitize(fv.Name()))
		u.pre.declConst(n, SInt)
		t := mkT(n, SInt, fv.Type())
		st.vals[fv] = t
		u.knownRef(st, t, fv.Type())
		st.assume(lt(intLit(0), t))
		if pt, ok := fv.Type().(*types.Pointer); ok {
			if _, isS := isStruct(pt.Elem()); !isS {
				comp, cs := u.cellComp(pt.Elem())
				st.locs[fv] = Loc{Kind: 1, Comp: comp, CSort: cs, Ref: t, T: pt.Elem()}
			}
		}
	}
	// distinct free-variable cells
	for i := 0; i < len(fn.FreeVars); i++ {
		for j := i + 1; j < len(fn.FreeVars); j++ {
			if types.Identical(fn.FreeVars[i].Type(), fn.FreeVars[j].Type()) {
				st.assume(not(eq(st.vals[fn.FreeVars[i]], st.vals[fn.FreeVars[j]])))
			}
		}
	}
	u.initClosureCtx(st)
	u.logical = map[string]Term{}
	if c != nil {
		for _, lv := range c.Logical {
			t := e.resolveType(fn.Pkg.Pkg, lv.Type)
			n := "lv_" + lv.Name
			u.pre.declConst(n, u.sortOf(t))
			lt := mkT(n, u.sortOf(t), t)
			u.logical[lv.Name] = lt
			st.assume(u.typeFacts(lt, t))
		}
	}
	if c == nil && fn.Signature.Recv() != nil && len(fn.Params) > 0 {
		// zero-annotation sweep: a method is analysed for non-nil receivers; the call sites of
		// contract-less methods carry the matching obligation
		if _, isPtr := fn.Params[0].Type().Underlying().(*types.Pointer); isPtr && !nilGuarded(fn) {
			st.assume(not(eq(st.vals[fn.Params[0]], intLit(0))))
			u.note("sweep: methods without contract are analysed for a non-nil receiver (checked at their call sites)")
		}
	}
	u.initGhost(st)
	{
		// lock ghosts: an ordinary operation starts on a published object; a constructor owns its object
		_, unpub := u.lockGhost(st)
		if c != nil && c.Constructor {
			st.assume(unpub)
			st.assume(not(st.ghost["held"]))
		} else {
			st.assume(not(unpub))
			// a public entry point is called from outside: its caller does not hold the cache mutex
			mentions := false
			if c != nil {
				for _, r := range c.Requires {
					if strings.Contains(r.Text, "held") || strings.Contains(r.Text, "excl") {
						mentions = true
					}
				}
			}
			if fn.Parent() == nil && token.IsExported(fn.Name()) && !mentions {
				st.assume(not(st.ghost["held"]))
			}
		}
	}
	u.entry = st.clone()
	// preconditions
	if c != nil {
		for _, r := range c.Requires {
			ctx := u.newCtx(st, nil)
			t := ctx.eval(r.Expr)
			for _, s := range ctx.side {
				st.assume(s)
			}
			st.assume(t)
		}
		// vacuity: the precondition together with the type facts must be satisfiable
		u.cover(st, fn.Pos(), "requires is satisfiable")
	}
	if c != nil {
		u.ghostUpdates(st, "entry", u.newCtx(st, nil))
	}
	u.entry = st.clone()
	u.execBlock(st, nil, fn.Blocks[0])
	return u, nil
}

func (u *Unit) cover(st *State, pos token.Pos, what string) {
	o := &Obligation{Name: fmt.Sprintf("%s#cover:%s@%s", u.key, what, u.posString(pos)), Kind: "cover", Func: u.key, Pos: u.posString(pos),
		Clause: what, Lines: append([]string(nil), st.lines...), Goal: tFalse, Cover: true, unit: u}
	u.obls = append(u.obls, o)
}

func (u *Unit) newCtx(st *State, old *State) *EvalCtx {
	ctx := &EvalCtx{u: u, st: st, old: old, vars: map[string]Term{}, bound: map[string]bool{}}
	if u.fn.Pkg != nil {
		ctx.pkg = u.fn.Pkg.Pkg
	} else if u.fn.Parent() != nil {
		p := u.fn
		for p.Parent() != nil {
			p = p.Parent()
		}
		if p.Pkg != nil {
			ctx.pkg = p.Pkg.Pkg
		}
	}
	for k, v := range u.params {
		if !strings.HasPrefix(k, "@") {
			ctx.vars[k] = v
		}
	}
	for k, v := range u.logical {
		ctx.vars[k] = v
	}
	// free variables of closures are visible by name: they denote the captured cell's content
	for _, fv := range u.fn.FreeVars {
		if _, clash := ctx.vars[fv.Name()]; clash {
			continue
		}
		if l, ok := st.locs[fv]; ok {
			ctx.vars[fv.Name()] = u.loadLoc(st, l)
		} else if t, ok := st.vals[fv]; ok {
			ctx.vars[fv.Name()] = t
		}
	}
	// so are the variables of the parent captured by sibling closures
	if u.closure != nil {
		for name, cell := range u.closure.byName {
			if _, clash := ctx.vars[name]; clash {
				continue
			}
			if l, ok := u.parentCellLoc(cell); ok {
				ctx.vars[name] = u.loadLoc(st, l)
			}
		}
	}
	return ctx
}

// ---------- path exploration ----------

func (u *Unit) execBlock(st *State, from, b *ssa.BasicBlock) {
	// loop headers are cut points
	if _, isHeader := u.headers[b]; isHeader {
		if from != nil && b.Dominates(from) {
			u.loopBackEdge(st, from, b)
			return
		}
		u.loopEnter(st, from, b)
	} else {
		u.execPhis(st, from, b, nil)
	}
	u.execBody(st, b)
}

func (u *Unit) phiIncoming(st *State, from, b *ssa.BasicBlock) map[*ssa.Phi]Term {
	out := map[*ssa.Phi]Term{}
	idx := -1
	for i, p := range b.Preds {
		if p == from {
			idx = i
			break
		}
	}
	for _, ins := range b.Instrs {
		phi, ok := ins.(*ssa.Phi)
		if !ok {
			break
		}
		if idx < 0 {
			panic(unsupported("phi without predecessor"))
		}
		out[phi] = u.val(st, phi.Edges[idx])
	}
	return out
}

func (u *Unit) execPhis(st *State, from, b *ssa.BasicBlock, override map[*ssa.Phi]Term) {
	if from == nil {
		return
	}
	in := override
	if in == nil {
		in = u.phiIncoming(st, from, b)
	}
	for phi, t := range in {
		t.T = phi.Type()
		st.vals[phi] = t
		// static locations flow through phis only when all edges agree: not tracked
	}
}

func (u *Unit) execBody(st *State, b *ssa.BasicBlock) {
	for _, ins := range b.Instrs {
		switch x := ins.(type) {
		case *ssa.Phi:
			continue
		case *ssa.If:
			c := u.val(st, x.Cond)
			u.ghostAt(st, b, "branch")
			switch c.S {
			case "true":
				u.execBlock(st, b, b.Succs[0])
			case "false":
				u.execBlock(st, b, b.Succs[1])
			default:
				u.countPath()
				s2 := st.clone()
				st.assume(c)
				st.pathID = append(st.pathID, fmt.Sprintf("%d+", b.Index))
				u.execBlock(st, b, b.Succs[0])
				s2.assume(not(c))
				s2.pathID = append(s2.pathID, fmt.Sprintf("%d-", b.Index))
				u.execBlock(s2, b, b.Succs[1])
			}
			return
		case *ssa.Jump:
			u.execBlock(st, b, b.Succs[0])
			return
		case *ssa.Return:
			u.execReturn(st, x)
			return
		case *ssa.Panic:
			u.oblige(st, "safety", x.Pos(), tFalse, "explicit panic is reachable", u.safetyTags())
			return
		default:
			u.execInstr(st, ins)
			if st.dead {
				return
			}
		}
	}
}

func (u *Unit) countPath() {
	u.paths++
	if u.paths > u.maxPaths {
		panic(unsupported(fmt.Sprintf("more than %d paths", u.maxPaths)))
	}
}

// ---------- loops ----------

type loopInfo struct {
	header  *ssa.BasicBlock
	ordinal int
	next    *ssa.Next
	idxPhi  *ssa.Phi
	lenVal  ssa.Value // n in `idx+1 < n` of a range-over-slice loop
	ranged  ssa.Value // the slice being ranged over
}

func (u *Unit) loopInfo(h *ssa.BasicBlock) loopInfo {
	li := loopInfo{header: h, ordinal: u.headers[h]}
	for _, ins := range h.Instrs {
		switch x := ins.(type) {
		case *ssa.Phi:
			if x.Comment == "rangeindex" {
				li.idxPhi = x
			}
		case *ssa.Next:
			li.next = x
		case *ssa.If:
			if b, ok := x.Cond.(*ssa.BinOp); ok && b.Op == token.LSS && li.idxPhi != nil {
				if inc, ok := b.X.(*ssa.BinOp); ok && inc.X == li.idxPhi {
					li.lenVal = b.Y
					// the ranged slice: the operand of len() that produced n, or of an IndexAddr by idx+1
					if call, ok := b.Y.(*ssa.Call); ok {
						if bi, ok := call.Call.Value.(*ssa.Builtin); ok && bi.Name() == "len" {
							li.ranged = call.Call.Args[0]
						}
					}
					if li.ranged == nil {
						for blk := range u.loopBlocks[h] {
							for _, bi := range blk.Instrs {
								if ia, ok := bi.(*ssa.IndexAddr); ok && ia.Index == ssa.Value(inc) {
									li.ranged = ia.X
								}
							}
						}
					}
				}
			}
		}
	}
	return li
}

// loopCtx builds the evaluation context for invariants at a loop header.
func (u *Unit) loopCtx(st *State, h *ssa.BasicBlock, phis map[*ssa.Phi]Term) *EvalCtx {
	ctx := u.newCtx(st, u.entry)
	li := u.loopInfo(h)
	for phi, t := range phis {
		t.T = phi.Type()
		if phi.Comment != "" && phi.Comment != "rangeindex" {
			ctx.vars[phi.Comment] = t
		}
	}
	if li.idxPhi != nil {
		if t, ok := phis[li.idxPhi]; ok {
			ctx.vars["__h_i"] = mkT(add(t, intLit(1)).S, SInt, types.Typ[types.Int])
		}
		if li.ranged != nil {
			if t, ok := st.vals[li.ranged]; ok && t.Sort == SSlice {
				t.T = li.ranged.Type()
				ctx.vars["__h_slice"] = t
			}
		}
		if li.lenVal != nil {
			if t, ok := st.vals[li.lenVal]; ok {
				ctx.vars["__h_n"] = mkT(t.S, SInt, types.Typ[types.Int])
			} else if c, ok := li.lenVal.(*ssa.Const); ok {
				ctx.vars["__h_n"] = u.constTerm(c)
			}
		}
	}
	if li.next != nil {
		if it, ok := st.iters[li.next.Iter.(*ssa.Range)]; ok {
			if it.kind == "string" {
				ctx.vars["__h_pos"] = mkT(it.pos.S, SInt, types.Typ[types.Int])
				ctx.vars["__h_str"] = mkT(it.str.S, SStr, types.Typ[types.String])
			} else {
				ctx.vars["__h_seen"] = it.seen
				ctx.vars["__h_map"] = mkT(it.mref.S, SInt, it.mT)
			}
		}
	}
	// map iterators of the other (enclosing) loops: #seenK, #mapK and, once a key has been delivered, #keyK
	for oh, ord := range u.headers {
		if oh == h {
			continue
		}
		if oli := u.loopInfo(oh); oli.next != nil {
			if it, ok := st.iters[oli.next.Iter.(*ssa.Range)]; ok && it.kind == "map" {
				ctx.vars[fmt.Sprintf("__h_seen%d", ord)] = it.seen
				ctx.vars[fmt.Sprintf("__h_map%d", ord)] = mkT(it.mref.S, SInt, it.mT)
				if it.cur.S != "" {
					ctx.vars[fmt.Sprintf("__h_key%d", ord)] = it.cur
				}
			}
		}
	}
	if snap, ok := st.loopSnap[u.headers[h]]; ok {
		ctx.loopSnap = snap
	}
	if snap, ok := st.headSnap[u.headers[h]]; ok {
		ctx.headSnap = snap
	}
	for k, t := range st.loopIn {
		pre := fmt.Sprintf("%d:", u.headers[h])
		if strings.HasPrefix(k, pre) {
			ctx.vars["__h_in_"+strings.TrimPrefix(k, pre)] = t
		}
	}
	u.bindLocals(ctx, st, h)
	return ctx
}

// bindLocals makes source-level local variables visible by name where unambiguous.
func (u *Unit) bindLocals(ctx *EvalCtx, st *State, at *ssa.BasicBlock) {
	cands := map[string]map[ssa.Value]bool{}
	addr := map[ssa.Value]bool{}
	for _, b := range u.fn.Blocks {
		for _, ins := range b.Instrs {
			d, ok := ins.(*ssa.DebugRef)
			if !ok {
				continue
			}
			obj := d.Object()
			if obj == nil {
				continue
			}
			if v, isVar := obj.(*types.Var); !isVar || v.IsField() {
				// (a selector x.f refers to the field object f: not a local of that name)
				continue
			}
			if cands[obj.Name()] == nil {
				cands[obj.Name()] = map[ssa.Value]bool{}
			}
			cands[obj.Name()][d.X] = true
			if d.IsAddr {
				addr[d.X] = true
			}
		}
	}
	for name, vs := range cands {
		if _, taken := ctx.vars[name]; taken {
			// a parameter that is captured by a closure lives in a cell: after entry the name denotes the cell
			isParamCell := false
			if _, isParam := u.params[name]; isParam {
				for v := range vs {
					if al, ok := v.(*ssa.Alloc); ok && addr[v] && al.Comment == name {
						isParamCell = true
					}
				}
			}
			if !isParamCell {
				continue
			}
		}
		// keep only values that currently have a term
		var live []ssa.Value
		for v := range vs {
			if _, ok := st.vals[v]; ok {
				live = append(live, v)
			} else if _, ok := v.(*ssa.Const); ok {
				continue
			}
		}
		// a variable that lives in memory is denoted by its cell, not by the value it was initialised with
		var inMem []ssa.Value
		for _, v := range live {
			if addr[v] {
				inMem = append(inMem, v)
			}
		}
		if len(inMem) == 1 {
			live = inMem
		}
		if len(live) > 1 && st.dbg != nil {
			// several SSA values of one source variable are alive: the one last seen on this path
			if last, ok := st.dbg[name]; ok {
				for _, v := range live {
					if v == last {
						live = []ssa.Value{v}
					}
				}
			}
		}
		if len(live) != 1 {
			continue
		}
		v := live[0]
		if addr[v] {
			if l, ok := st.locs[v]; ok {
				ctx.vars[name] = u.loadLoc(st, l)
			} else if pt, ok := v.Type().(*types.Pointer); ok {
				if _, isS := isStruct(pt.Elem()); isS {
					ctx.vars[name] = mkT(st.vals[v].S, SInt, refOf(pt.Elem()))
				}
			}
			continue
		}
		ctx.vars[name] = st.vals[v]
	}
}

func (u *Unit) loopClauses(h *ssa.BasicBlock) (inv []Clause, dec *Clause) {
	li := u.loopInfo(h)
	// automatic, checked invariants
	if li.idxPhi != nil {
		e, _ := parseExpr("0 <= #i")
		inv = append(inv, Clause{Text: "0 <= #i (auto)", Expr: e})
		if li.lenVal != nil {
			e, _ := parseExpr("#i <= #n || #n < 0")
			inv = append(inv, Clause{Text: "#i <= #n (auto)", Expr: e})
		}
	}
	if li.next != nil {
		if _, isStr := li.next.Iter.(*ssa.Range).X.Type().Underlying().(*types.Basic); isStr {
			e, _ := parseExpr("0 <= #pos && #pos <= len(#str)")
			inv = append(inv, Clause{Text: "0 <= #pos && #pos <= len(#str) (auto)", Expr: e})
		}
	}
	if u.contract != nil {
		if lc := u.contract.Loops[li.ordinal]; lc != nil {
			inv = append(inv, lc.Invariants...)
			dec = lc.Decreases
		}
	}
	return
}

func (u *Unit) loopEnter(st *State, from, h *ssa.BasicBlock) {
	in := map[*ssa.Phi]Term{}
	if from != nil {
		in = u.phiIncoming(st, from, h)
	}
	inv, dec := u.loopClauses(h)
	if u.contract != nil {
		max := 0
		for k := range u.contract.Loops {
			if k > max {
				max = k
			}
		}
		if max > len(u.headers) {
			panic(evalErr{fmt.Sprintf("contract names loop %d but %s has %d loops", max, u.key, len(u.headers))})
		}
	}
	if st.loopIn == nil {
		st.loopIn = map[string]Term{}
	}
	if st.loopSnap == nil {
		st.loopSnap = map[int]*State{}
	}
	{
		snap := st.clone()
		snap.snapBase = len(snap.lines)
		st.loopSnap[u.headers[h]] = snap
	}
	for phi, t := range in {
		if phi.Comment != "" {
			t.T = phi.Type()
			st.loopIn[fmt.Sprintf("%d:%s", u.headers[h], phi.Comment)] = t
		}
	}
	// 1. invariant holds on entry
	for _, c := range inv {
		ctx := u.loopCtx(st, h, in)
		g := ctx.eval(c.Expr)
		s2 := st
		if len(ctx.side) > 0 {
			s2 = st.clone()
			for _, s := range ctx.side {
				s2.assume(s)
			}
		}
		u.oblige(s2, "inv-init", h.Instrs[0].Pos(), g, fmt.Sprintf("loop %d: %s", u.headers[h], c.Text), c.Tags)
	}
	// 2. havoc what the loop changes
	mods := u.loopModifies(h)
	if mods.all {
		u.havocAll(st)
	} else {
		if mods.allExcept {
			u.havocAllExcept(st, mods.keep)
		}
		pol := u.policy()
		for _, comp := range sortedKeys(mods.comps) {
			sort, known := u.compSorts()[comp]
			var before Term
			if known {
				before = u.heapGet(st, comp, sort)
			}
			u.havocComp(st, comp)
			if known && pol.active && u.restricted(comp) {
				// Loop frame. Every write in the body carries a frame obligation (fresh object or a
				// location of the modifies clause), so locations that existed at function entry and are
				// outside the modifies clause keep their value across iterations.
				after := st.heap[comp]
				r := mk("r", SInt)
				excl := []Term{le(app("own", SInt, r), u.entry.alloc)}
				for _, l := range pol.locs {
					if l.Comp == comp {
						excl = append(excl, not(l.Match(r)))
					}
				}
				st.assume(mk(fmt.Sprintf("(forall ((r Int)) (! (=> %s (= (select %s r) (select %s r))) :pattern ((select %s r))))", and(excl...).S, after.S, before.S, after.S), SBool))
			}
		}
	}
	// earlier iterations may have allocated: advance the allocation bound before
	// the loop-carried values are introduced (they may refer to those objects)
	if mods.allocates || mods.all || mods.allExcept {
		u.advanceAlloc(st)
	}
	phis := map[*ssa.Phi]Term{}
	for _, ins := range h.Instrs {
		phi, ok := ins.(*ssa.Phi)
		if !ok {
			break
		}
		phis[phi] = u.freshOf(st, "phi_"+phi.Comment, phi.Type())
	}
	for _, g := range sortedKeys(mods.ghosts) {
		if cur, ok := st.ghost[g]; ok {
			st.ghost[g] = u.fresh(st, "ghost_"+g, cur.Sort, cur.T)
		}
	}
	// allocations made before the loop that its body may hand out
	{
		var blocks []*ssa.BasicBlock
		for b := range u.loopBlocks[h] {
			blocks = append(blocks, b)
		}
		u.leaksInLoop(st, blocks)
	}
	// iterators advanced inside the loop
	for r, it := range st.iters {
		rng := r.(*ssa.Range)
		used := false
		for b := range u.loopBlocks[h] {
			for _, ins := range b.Instrs {
				if n, ok := ins.(*ssa.Next); ok && n.Iter == rng {
					used = true
				}
			}
		}
		if !used {
			continue
		}
		if it.kind == "string" {
			it.pos = u.fresh(st, "pos", SInt, nil)
		} else {
			it.seen = u.fresh(st, "seen", it.seen.Sort, nil)
			it.cur = Term{}
		}
	}
	u.execPhis(st, h, h, phis)
	// 3. assume the invariant for an arbitrary iteration
	for _, c := range inv {
		ctx := u.loopCtx(st, h, phis)
		g := ctx.eval(c.Expr)
		for _, s := range ctx.side {
			st.assume(s)
		}
		st.assume(g)
	}
	st.entered[h] = true
	{
		// athead(e) in ghost updates and invariants: e in the state at the head of this iteration
		prev := st.headSnap
		st.headSnap = nil
		snap := st.clone()
		snap.snapBase = len(snap.lines)
		st.headSnap = map[int]*State{}
		for k, v := range prev {
			st.headSnap[k] = v
		}
		st.headSnap[u.headers[h]] = snap
	}
	if dec != nil {
		ctx := u.loopCtx(st, h, phis)
		st.variant[h] = u.define(st, "variant", ctx.eval(dec.Expr))
	} else {
		delete(st.variant, h)
	}
	u.ghostAt(st, h, fmt.Sprintf("loop %d head", u.headers[h]))
}

func (u *Unit) loopBackEdge(st *State, from, h *ssa.BasicBlock) {
	// vacuity: the end of the body must be reachable under the contracts of the callees (first paths only)
	if u.backCovers == nil {
		u.backCovers = map[*ssa.BasicBlock]int{}
	}
	if u.backCovers[h] < 3 {
		u.backCovers[h]++
		u.cover(st, from.Instrs[len(from.Instrs)-1].Pos(), fmt.Sprintf("loop %d body end is reachable (path %d)", u.headers[h], u.backCovers[h]))
	}
	in := u.phiIncoming(st, from, h)
	{
		// ghost updates at the end of the body see the new values by name and the values at the
		// loop head as #hd_<name>
		ctx := u.loopCtx(st, h, in)
		for _, ins := range h.Instrs {
			if phi, ok := ins.(*ssa.Phi); ok && phi.Comment != "" {
				if t, ok := st.vals[phi]; ok {
					ctx.vars["__h_hd_"+phi.Comment] = t
				}
			}
		}
		u.ghostUpdates(st, fmt.Sprintf("loop %d body end", u.headers[h]), ctx)
	}
	if u.contract != nil {
		// checked hints at the end of the body: proved here, then available to the invariants
		where := fmt.Sprintf("loop %d body end", u.headers[h])
		for _, a := range u.contract.Asserts {
			if a.Where != where {
				continue
			}
			ctx := u.loopCtx(st, h, in)
			g := ctx.eval(a.Clause.Expr)
			for _, s := range ctx.side {
				st.assume(s)
			}
			u.oblige(st, "assert", from.Instrs[len(from.Instrs)-1].Pos(), g, where+": "+a.Clause.Text, a.Clause.Tags)
			st.assume(g)
		}
	}
	inv, dec := u.loopClauses(h)
	for _, c := range inv {
		ctx := u.loopCtx(st, h, in)
		g := ctx.eval(c.Expr)
		s2 := st
		if len(ctx.side) > 0 {
			s2 = st.clone()
			for _, s := range ctx.side {
				s2.assume(s)
			}
		}
		u.oblige(s2, "inv-keep", from.Instrs[len(from.Instrs)-1].Pos(), g, fmt.Sprintf("loop %d: %s", u.headers[h], c.Text), c.Tags)
	}
	li := u.loopInfo(h)
	if dec != nil {
		ctx := u.loopCtx(st, h, in)
		d1 := ctx.eval(dec.Expr)
		d0 := st.variant[h]
		u.oblige(st, "variant", h.Instrs[0].Pos(), and(le(intLit(0), d0), lt(d1, d0)), fmt.Sprintf("loop %d decreases %s", u.headers[h], dec.Text), []string{"C08"})
	} else if li.idxPhi == nil && li.next == nil {
		if !u.exemptLoop(h) {
			u.oblige(st, "variant", h.Instrs[0].Pos(), tFalse, fmt.Sprintf("loop %d has no decreases clause", u.headers[h]), []string{"C08"})
		}
	}
}

// exemptLoop: the watcher's for { select } loop is an intentional non-terminating service loop.
func (u *Unit) exemptLoop(h *ssa.BasicBlock) bool {
	for b := range u.loopBlocks[h] {
		for _, ins := range b.Instrs {
			if _, ok := ins.(*ssa.Select); ok {
				u.note(u.key + ": for{select} service loop is exempt from termination")
				return true
			}
		}
	}
	return false
}

type modSet struct {
	comps     map[string]string
	ghosts    map[string]string
	all       bool
	allocates bool
	allExcept bool     // some call may write everything except the packages in keep
	keep      []string // intersection of the preserved packages of those calls
}

func (ms *modSet) addPreserving(pkgs []string) {
	if !ms.allExcept {
		ms.allExcept = true
		ms.keep = append([]string(nil), pkgs...)
		return
	}
	var inter []string
	for _, a := range ms.keep {
		for _, b := range pkgs {
			if a == b {
				inter = append(inter, a)
			}
		}
	}
	ms.keep = inter
}

// loopModifies conservatively collects what the blocks of a loop may write.
func (u *Unit) loopModifies(h *ssa.BasicBlock) modSet {
	ms := modSet{comps: map[string]string{}, ghosts: map[string]string{}}
	var blocks []*ssa.BasicBlock
	for b := range u.loopBlocks[h] {
		blocks = append(blocks, b)
	}
	sort.Slice(blocks, func(i, j int) bool { return blocks[i].Index < blocks[j].Index })
	for _, b := range blocks {
		for _, ins := range b.Instrs {
			u.instrModifies(ins, &ms)
		}
	}
	if u.contract != nil {
		for _, g := range u.contract.Ghosts {
			// only the ghost updates attached to program points inside this loop
			inLoop := false
			for hb, k := range u.headers {
				if u.loopBlocks[h][hb] && strings.HasPrefix(g.At, fmt.Sprintf("loop %d ", k)) {
					inLoop = true
				}
			}
			if strings.Contains(g.At, "call of ") {
				want := strings.TrimSpace(g.At[strings.Index(g.At, "call of ")+len("call of "):])
				for _, b := range blocks {
					for _, ins := range b.Instrs {
						if ci, ok := ins.(ssa.CallInstruction); ok {
							if callee := ci.Common().StaticCallee(); callee != nil && callee.Name() == want {
								inLoop = true
							}
						}
					}
				}
			}
			if inLoop {
				ms.ghosts[g.Var] = ""
			}
		}
	}
	return ms
}

func (u *Unit) instrModifies(ins ssa.Instruction, ms *modSet) {
	switch x := ins.(type) {
	case *ssa.Store:
		u.addrComps(x.Addr, ms)
	case *ssa.MapUpdate:
		mc := u.mapComps(x.Map.Type())
		ms.comps[mc.dom], ms.comps[mc.val], ms.comps[mc.card] = mc.domS, mc.valS, arraySort(SInt, SInt)
	case *ssa.Alloc:
		ms.allocates = true
		u.addrComps(x, ms)
	case *ssa.MakeMap:
		ms.allocates = true
		mc := u.mapComps(x.Type())
		ms.comps[mc.dom], ms.comps[mc.val], ms.comps[mc.card] = mc.domS, mc.valS, arraySort(SInt, SInt)
	case *ssa.MakeSlice:
		ms.allocates = true
		et := x.Type().Underlying().(*types.Slice).Elem()
		if _, ok := isStruct(et); !ok {
			c, s := u.elemComp(et)
			ms.comps[c] = s
		}
	case *ssa.MakeClosure, *ssa.MakeInterface, *ssa.MakeChan:
		ms.allocates = true
	case *ssa.Convert:
		if _, ok := x.Type().Underlying().(*types.Slice); ok {
			ms.allocates = true
			c, s := u.elemComp(types.Typ[types.Uint8])
			ms.comps[c] = s
		}
	case ssa.CallInstruction:
		u.callModifies(x.Common(), ms)
	}
}

func (u *Unit) addrComps(addr ssa.Value, ms *modSet) {
	pt, ok := addr.Type().Underlying().(*types.Pointer)
	if !ok {
		return
	}
	elem := pt.Elem()
	if _, ok := isStruct(elem); ok {
		u.structComps(elem, ms.comps)
		return
	}
	if at, ok := elem.Underlying().(*types.Array); ok {
		if _, isS := isStruct(at.Elem()); isS {
			u.structComps(at.Elem(), ms.comps)
		} else {
			c, s := u.elemComp(at.Elem())
			ms.comps[c] = s
		}
		return
	}
	switch a := addr.(type) {
	case *ssa.FieldAddr:
		st := a.X.Type().Underlying().(*types.Pointer).Elem()
		c, s, _ := u.fieldComp(st, a.Field)
		ms.comps[c] = s
	case *ssa.IndexAddr:
		c, s := u.elemComp(elem)
		ms.comps[c] = s
	default:
		c, s := u.cellComp(elem)
		ms.comps[c] = s
	}
}

func (u *Unit) havocAll(st *State) {
	u.havocAllPassing(st, nil)
}

// havocAllPassing: unknown effect of a call that receives the closure `passed` (nil: none).
func (u *Unit) havocAllPassing(st *State, passed *ssa.MakeClosure) {
	saved := u.savePrivateCells(st, passed)
	defer u.restorePrivateCells(st, saved)
	owned := u.saveOwned(st)
	defer u.restoreOwned(st, owned)
	st.heap = map[string]Term{}
	st.epoch++
	u.nfresh++
	st.epochID = u.nfresh
	st.keepNone = true
	st.keepPkgs = nil
}

// havocAllExcept: everything may have changed except components of the given packages
// (a callee that preserves them; objects it allocates are read as unconstrained).
func (u *Unit) havocAllExcept(st *State, pkgs []string) {
	saved := u.savePrivateCells(st, nil)
	defer u.restorePrivateCells(st, saved)
	owned := u.saveOwned(st)
	defer u.restoreOwned(st, owned)
	nh := map[string]Term{}
	for comp, t := range st.heap {
		if pkgMatches(u.eng.compPkg[comp], pkgs) {
			nh[comp] = t
		}
	}
	st.heap = nh
	if st.epoch == 0 && !st.keepNone {
		st.keepPkgs = append([]string(nil), pkgs...)
	} else {
		var inter []string
		for _, a := range st.keepPkgs {
			for _, b := range pkgs {
				if a == b {
					inter = append(inter, a)
				}
			}
		}
		st.keepPkgs = inter
	}
	st.epoch++
	u.nfresh++
	st.epochID = u.nfresh
}

func (u *Unit) advanceAlloc(st *State) {
	a := u.fresh(st, "alloc", SInt, nil)
	st.assume(le(st.alloc, a))
	st.alloc = a
}

// ---------- return ----------

func (u *Unit) execReturn(st *State, x *ssa.Return) {
	u.countPath()
	var results []Term
	for _, r := range x.Results {
		results = append(results, u.val(st, r))
	}
	u.ghostAt(st, x.Block(), "return")
	u.checkLockBalance(st, x.Pos())
	u.ghostFrameAtReturn(st, x)
	if u.contract == nil {
		return
	}
	c := u.contract
	if len(c.Results) != len(results) && len(c.Results) != 0 {
		panic(evalErr{fmt.Sprintf("contract of %s names %d results, the function returns %d", u.key, len(c.Results), len(results))})
	}
	mkctx := func() *EvalCtx {
		ctx := u.newCtx(st, u.entry)
		sig := u.fn.Signature.Results()
		for i, n := range c.Results {
			t := results[i]
			t.T = sig.At(i).Type()
			ctx.vars[n] = t
		}
		return ctx
	}
	// checked hints: proved here, then available to the postconditions
	for _, a := range c.Asserts {
		if a.Where != "return" {
			continue
		}
		ctx := mkctx()
		// (a hint may speak about locals; parameters and results keep their names)
		u.bindLocals(ctx, st, x.Block())
		g := ctx.eval(a.Clause.Expr)
		for _, s := range ctx.side {
			st.assume(s)
		}
		u.oblige(st, "assert", x.Pos(), g, a.Clause.Text, a.Clause.Tags)
		st.assume(g)
	}
	for _, e := range c.Ensures {
		if hasTag(e.Tags, "assumed") {
			// a clause of an otherwise verified contract that is taken on trust (listed in the evidence)
			u.usedExternal["assumed clause of "+u.key+" (not proved against its body): "+e.Text] = true
			continue
		}
		ctx := mkctx()
		g := ctx.eval(e.Expr)
		s2 := st
		if len(ctx.side) > 0 {
			s2 = st.clone()
			for _, s := range ctx.side {
				s2.assume(s)
			}
		}
		u.oblige(s2, "post", x.Pos(), g, e.Text, e.Tags)
	}
	u.frameAtReturn(st, x, mkctx)
	u.cover(st, x.Pos(), "return is reachable")
}

// ghostFrameAtReturn: a ghost global that the contract does not list under `ghostwrites` has its entry value
// at every return (callers rely on it: they keep the ghost state across the call).
func (u *Unit) ghostFrameAtReturn(st *State, x *ssa.Return) {
	for _, gv := range u.eng.contracts.GhostGlobals {
		if u.contract != nil {
			listed := false
			for _, g := range u.contract.GhostWrites {
				if g == gv.Name {
					listed = true
				}
			}
			if listed {
				continue
			}
		}
		cur, ok1 := st.ghost[gv.Name]
		ent, ok2 := u.entry.ghost[gv.Name]
		if !ok1 || !ok2 || cur.S == ent.S {
			continue
		}
		u.oblige(st, "ghostframe", x.Pos(), eq(cur, ent), "ghost state "+gv.Name+" is not listed under ghostwrites and is unchanged", nil)
	}
}

// typeFrameCheck discharges a `preserves P` clause by a type argument: no value whose type can reach a
// named type of P occurs in the function or in anything it can call inside the repository.
func (u *Unit) typeFrameCheck() {
	c := *u.contract
	if len(c.TypeFramePkgs) > 0 {
		c.Preserves = c.TypeFramePkgs
	}
	seen := map[*ssa.Function]bool{}
	var bad []string
	reach := map[string]bool{}
	var reaches func(t types.Type, depth int) bool
	reaches = func(t types.Type, depth int) bool {
		if t == nil || depth > 8 {
			return false
		}
		key := types.TypeString(t, nil)
		if v, ok := reach[key]; ok {
			return v
		}
		reach[key] = false
		r := false
		switch x := types.Unalias(t).(type) {
		case *types.Named:
			if x.Obj().Pkg() != nil && pkgMatches(x.Obj().Pkg().Path(), c.Preserves) {
				r = true
			} else {
				r = reaches(x.Underlying(), depth+1)
			}
		case *types.Pointer:
			r = reaches(x.Elem(), depth+1)
		case *types.Slice:
			r = reaches(x.Elem(), depth+1)
		case *types.Array:
			r = reaches(x.Elem(), depth+1)
		case *types.Map:
			r = reaches(x.Key(), depth+1) || reaches(x.Elem(), depth+1)
		case *types.Chan:
			r = reaches(x.Elem(), depth+1)
		case *types.Struct:
			for i := 0; i < x.NumFields(); i++ {
				if reaches(x.Field(i).Type(), depth+1) {
					r = true
				}
			}
		case *types.Signature:
			for i := 0; i < x.Params().Len(); i++ {
				if reaches(x.Params().At(i).Type(), depth+1) {
					r = true
				}
			}
			for i := 0; i < x.Results().Len(); i++ {
				if reaches(x.Results().At(i).Type(), depth+1) {
					r = true
				}
			}
		case *types.Tuple:
			for i := 0; i < x.Len(); i++ {
				if reaches(x.At(i).Type(), depth+1) {
					r = true
				}
			}
		}
		reach[key] = r
		return r
	}
	var visit func(f *ssa.Function)
	visit = func(f *ssa.Function) {
		if f == nil || seen[f] || f.Blocks == nil {
			return
		}
		seen[f] = true
		if !u.eng.inRepo(calleePkg(f)) {
			return
		}
		for _, b := range f.Blocks {
			for _, ins := range b.Instrs {
				if v, ok := ins.(ssa.Value); ok && reaches(v.Type(), 0) {
					bad = append(bad, fmt.Sprintf("%s: %s has type %s", f.String(), v.Name(), v.Type()))
				}
				var ops []*ssa.Value
				for _, op := range ins.Operands(ops) {
					if op == nil || *op == nil {
						continue
					}
					if fn, ok := (*op).(*ssa.Function); ok {
						visit(fn)
					} else if reaches((*op).Type(), 0) {
						bad = append(bad, fmt.Sprintf("%s: operand %s has type %s", f.String(), (*op).Name(), (*op).Type()))
					}
				}
				if ci, ok := ins.(ssa.CallInstruction); ok {
					cc := ci.Common()
					if cc.StaticCallee() == nil && !cc.IsInvoke() {
						for _, cand := range u.eng.funcCandidates(cc.Signature()) {
							visit(cand)
						}
					}
				}
			}
		}
		for _, af := range f.AnonFuncs {
			visit(af)
		}
	}
	visit(u.fn)
	st := u.entry
	if st == nil {
		st = &State{}
	}
	o := &Obligation{Name: u.key + "#typeframe:preserves " + strings.Join(c.Preserves, ","), Kind: "typeframe", Func: u.key,
		Clause: fmt.Sprintf("no value of a type reaching %s occurs in the %d repository functions reachable from %s", strings.Join(c.Preserves, ", "), len(seen), u.key),
		Goal:   tTrue, unit: u, Tags: c.FrameTags}
	if len(bad) == 0 {
		o.Result, o.Solver = "unsat", "gocv-typeframe"
	} else {
		o.Result, o.Solver = "sat", "gocv-typeframe"
		o.Output = strings.Join(bad, "\n")
	}
	o.Decided = true
	u.obls = append(u.obls, o)
}

// directWritesCheck decides a `directwrites P: T.f, ...` clause syntactically: every store of the body (and of
// its closures) through the address of a field of a struct type of package P, or into an element of a slice
// or array of such structs, names a listed field. Stores made by callees are the callees' business (their
// contracts); stores to P-typed values that live in local allocations are included (conservative).
func (u *Unit) directWritesCheck() {
	c := u.contract
	allowed := map[string]bool{}
	for _, f := range c.DirectFields {
		allowed[f] = true
	}
	var bad []string
	var visit func(f *ssa.Function)
	visit = func(f *ssa.Function) {
		for _, b := range f.Blocks {
			for _, ins := range b.Instrs {
				var addr ssa.Value
				switch x := ins.(type) {
				case *ssa.Store:
					addr = x.Addr
				case *ssa.MapUpdate:
					continue
				default:
					continue
				}
				for depth := 0; addr != nil && depth < 6; depth++ {
					switch a := addr.(type) {
					case *ssa.FieldAddr:
						st := a.X.Type().Underlying().(*types.Pointer).Elem()
						if n, ok := types.Unalias(st).(*types.Named); ok && n.Obj().Pkg() != nil && n.Obj().Pkg().Path() == c.DirectPkg {
							name := n.Obj().Name() + "." + st.Underlying().(*types.Struct).Field(a.Field).Name()
							if !allowed[name] {
								bad = append(bad, fmt.Sprintf("%s: store to %s", u.posString(ins.Pos()), name))
							}
							addr = nil
						} else {
							addr = a.X
						}
					case *ssa.IndexAddr:
						var et types.Type
						switch xt := a.X.Type().Underlying().(type) {
						case *types.Slice:
							et = xt.Elem()
						case *types.Pointer:
							if at, ok := xt.Elem().Underlying().(*types.Array); ok {
								et = at.Elem()
							}
						}
						if n, ok := types.Unalias(et).(*types.Named); ok && n.Obj().Pkg() != nil && n.Obj().Pkg().Path() == c.DirectPkg && allocRoot(a) == nil {
							// (an element of an array allocated here, e.g. the argument list of append, is the body's own)
							bad = append(bad, fmt.Sprintf("%s: store to an element of []%s", u.posString(ins.Pos()), n.Obj().Name()))
						}
						addr = nil
					default:
						addr = nil
					}
				}
			}
		}
		for _, af := range f.AnonFuncs {
			visit(af)
		}
	}
	visit(u.fn)
	o := &Obligation{Name: u.key + "#directwrites:" + c.DirectPkg, Kind: "assert", Func: u.key,
		Clause: "the body stores to no field of a type of " + c.DirectPkg + " other than " + strings.Join(c.DirectFields, ", "),
		Goal:   tTrue, unit: u, Tags: []string{"C03"}}
	if len(bad) == 0 {
		o.Result, o.Solver = "unsat", "gocv-directwrites"
	} else {
		o.Result, o.Solver = "sat", "gocv-directwrites"
		o.Output = strings.Join(bad, "\n")
	}
	o.Decided = true
	u.obls = append(u.obls, o)
}

// nilGuarded: the method starts by comparing its receiver with nil (it is meant to be callable on nil),
// or never dereferences its receiver itself (it only passes it on).
func nilGuarded(fn *ssa.Function) bool {
	if len(fn.Params) == 0 || len(fn.Blocks) == 0 {
		return false
	}
	derefs := false
	recv := ssa.Value(fn.Params[0])
	for _, b := range fn.Blocks {
		for _, ins := range b.Instrs {
			switch x := ins.(type) {
			case *ssa.FieldAddr:
				if x.X == recv {
					derefs = true
				}
			case *ssa.UnOp:
				if x.Op == token.MUL && x.X == recv {
					derefs = true
				}
			case *ssa.Store:
				if x.Addr == recv {
					derefs = true
				}
			}
		}
	}
	if !derefs {
		return true
	}
	for _, ins := range fn.Blocks[0].Instrs {
		switch x := ins.(type) {
		case *ssa.DebugRef:
			continue
		case *ssa.BinOp:
			if (x.Op == token.EQL || x.Op == token.NEQ) && (x.X == ssa.Value(fn.Params[0]) || x.Y == ssa.Value(fn.Params[0])) {
				return true
			}
			return false
		default:
			return false
		}
	}
	return false
}

func hasTag(tags []string, t string) bool {
	for _, x := range tags {
		if x == t {
			return true
		}
	}
	return false
}
