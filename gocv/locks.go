package main

import (
	"fmt"
	"go/token"
	"go/types"
	"strings"

	"golang.org/x/tools/go/ssa"
)

// Lock discipline (C12). One ghost boolean `held` stands for the cache mutex (the only sync.Mutex in the
// repository; instances are independent, the analysis is per instance), `unpub` for "the cache object has
// not been handed out yet" (constructor). excl = held || unpub is what every access to guarded state needs.

func (u *Unit) lockGhost(st *State) (held, unpub Term) {
	h, ok := st.ghost["held"]
	if !ok {
		u.pre.declConst("ghost_held0", SBool)
		u.pre.declConst("ghost_unpub0", SBool)
		h = mk("ghost_held0", SBool)
		st.ghost["held"] = h
		st.ghost["unpub"] = mk("ghost_unpub0", SBool)
	}
	return st.ghost["held"], st.ghost["unpub"]
}

func (u *Unit) exclTerm(st *State) Term {
	h, p := u.lockGhost(st)
	return or(h, p)
}

func isCacheMutexOp(name string) (lock bool, ok bool) {
	switch name {
	case "(*sync.Mutex).Lock", "sync.(*Mutex).Lock":
		return true, true
	case "(*sync.Mutex).Unlock", "sync.(*Mutex).Unlock":
		return false, true
	}
	return false, false
}

// lockEffects: Lock needs the mutex free (no self-deadlock) and takes it, Unlock needs it held and frees it.
func (u *Unit) lockEffects(st *State, c *Contract, name string, args []Term, pos token.Pos) {
	lock, ok := isCacheMutexOp(name)
	if !ok {
		return
	}
	held, _ := u.lockGhost(st)
	if lock {
		u.oblige(st, "lock", pos, not(held), "Lock: the mutex is not already held by this operation", []string{"C12"})
		st.ghost["held"] = tTrue
	} else {
		u.oblige(st, "lock", pos, held, "Unlock: the mutex is held", []string{"C12"})
		st.ghost["held"] = tFalse
	}
}

func (u *Unit) guardFor(structT types.Type, field int) (GuardDecl, bool) {
	n, ok := structT.(*types.Named)
	if !ok || n.Obj().Pkg() == nil {
		return GuardDecl{}, false
	}
	s := structT.Underlying().(*types.Struct)
	g, ok := u.eng.guards[n.Obj().Pkg().Path()+"."+n.Obj().Name()+"."+s.Field(field).Name()]
	return g, ok
}

// guardedAccess: the address of a guarded field is only formed to read or write it.
func (u *Unit) guardedAccess(st *State, x *ssa.FieldAddr, structT types.Type, field int, r Term) {
	g, ok := u.guardFor(structT, field)
	if !ok {
		return
	}
	s := structT.Underlying().(*types.Struct)
	goal := or(u.exclTerm(st), lt(u.entry.alloc, app("own", SInt, r)))
	u.oblige(st, "guarded-by", x.Pos(), goal, fmt.Sprintf("%s.%s is accessed with %s held (or on an object not yet handed out)", g.Struct, s.Field(field).Name(), g.By), []string{"C12"})
}

// guardedOrigin: does this map value come from a guarded field (directly, or as a parameter of a helper
// that is only ever called with guarded maps)?
func (u *Unit) guardedOrigin(v ssa.Value) (string, bool) {
	switch x := v.(type) {
	case *ssa.UnOp:
		if x.Op == token.MUL {
			if fa, ok := x.X.(*ssa.FieldAddr); ok {
				st := fa.X.Type().Underlying().(*types.Pointer).Elem()
				if g, ok := u.guardFor(st, fa.Field); ok {
					return g.Struct + "." + st.Underlying().(*types.Struct).Field(fa.Field).Name(), true
				}
			}
		}
	case *ssa.Parameter:
		if u.contract != nil {
			for _, a := range u.contract.Acquires {
				if strings.TrimSpace(a) == "guarded "+x.Name() {
					return "parameter " + x.Name(), true
				}
			}
		}
	case *ssa.Phi:
		for _, e := range x.Edges {
			if s, ok := u.guardedOrigin(e); ok {
				return s, true
			}
		}
	}
	return "", false
}

func (u *Unit) guardedMapAccess(st *State, m ssa.Value, pos token.Pos, write bool) {
	what, ok := u.guardedOrigin(m)
	if !ok {
		return
	}
	kind := "read"
	if write {
		kind = "update"
	}
	u.oblige(st, "guarded-by", pos, u.exclTerm(st), fmt.Sprintf("%s of the map held in %s happens with the mutex held", kind, what), []string{"C12"})
}

// checkLockBalance: an operation returns with the mutex in the state it found it.
func (u *Unit) checkLockBalance(st *State, pos token.Pos) {
	if _, ok := st.ghost["held"]; !ok {
		return
	}
	if st.ghost["held"].S == "ghost_held0" {
		return
	}
	u.oblige(st, "lock", pos, eq(st.ghost["held"], mk("ghost_held0", SBool)), "the mutex is released on every path before returning (held on exit iff held on entry)", []string{"C12"})
}

// mayLock: does the function (or anything it calls statically inside the repository) take the cache mutex?
func (e *Engine) mayLock(f *ssa.Function, seen map[*ssa.Function]bool) bool {
	if f == nil || f.Blocks == nil {
		return false
	}
	if v, ok := e.lockMemo[f]; ok {
		return v
	}
	if seen[f] {
		return false
	}
	seen[f] = true
	r := false
	for _, b := range f.Blocks {
		for _, ins := range b.Instrs {
			ci, ok := ins.(ssa.CallInstruction)
			if !ok {
				continue
			}
			if _, isGo := ins.(*ssa.Go); isGo {
				continue
			}
			callee := ci.Common().StaticCallee()
			if callee == nil {
				continue
			}
			if callee.String() == "(*sync.Mutex).Lock" {
				r = true
			} else if e.inRepo(calleePkg(callee)) && e.mayLock(callee, seen) {
				r = true
			}
		}
	}
	if e.lockMemo == nil {
		e.lockMemo = map[*ssa.Function]bool{}
	}
	e.lockMemo[f] = r
	return r
}

// lockAtCall: calling an operation that takes the mutex while holding it would deadlock.
func (u *Unit) lockAtCall(st *State, instr ssa.Instruction, callee *ssa.Function, c *Contract) {
	if callee == nil || !u.eng.inRepo(calleePkg(callee)) {
		return
	}
	if _, isGo := instr.(*ssa.Go); isGo {
		return
	}
	if c != nil {
		for _, r := range c.Requires {
			if strings.Contains(r.Text, "held") || strings.Contains(r.Text, "excl") {
				return // the contract states the callee's relation to the mutex
			}
		}
	}
	if !u.eng.mayLock(callee, map[*ssa.Function]bool{}) {
		return
	}
	held, _ := u.lockGhost(st)
	u.oblige(st, "lock", instr.Pos(), not(held), shortName(callee.String())+" takes the cache mutex: it must not be called with the mutex held (self-deadlock)", []string{"C12"})
}
