package main

import (
	"regexp"
	"fmt"
	"go/token"
	"go/types"
	"strings"

	"golang.org/x/tools/go/ssa"
)

// ---------- contract lookup ----------

// calleeContract finds the contract that governs a call.
func (u *Unit) calleeContract(common *ssa.CallCommon) (c *Contract, callee *ssa.Function, name string) {
	if common.IsInvoke() {
		recv := common.Value.Type()
		name = "(" + types.TypeString(recv, u.eng.qual) + ")." + common.Method.Name()
		if c, ok := u.eng.contracts.Funcs[name]; ok {
			return c, nil, name
		}
		return nil, nil, name
	}
	callee = common.StaticCallee()
	if callee == nil {
		// dynamic call through a function value: function-type contract of the static named type
		t := common.Value.Type()
		if n, ok := t.(*types.Named); ok && n.Obj().Pkg() != nil {
			name = n.Obj().Pkg().Path() + "." + n.Obj().Name()
			if c, ok := u.eng.contracts.FuncTypes[name]; ok {
				return c, nil, "functype " + name
			}
			return nil, nil, "functype " + name
		}
		return nil, nil, "func value " + types.TypeString(t, u.eng.qual)
	}
	if callee.Origin() != nil {
		callee = callee.Origin()
	}
	if c := u.eng.contractFor(callee); c != nil {
		return c, callee, funcPkgPath(callee) + "." + funcKey(callee)
	}
	pp := funcPkgPath(callee)
	key := funcKey(callee)
	cands := []string{pp + "." + key}
	if i := strings.LastIndex(pp, "/"); i >= 0 {
		cands = append(cands, pp[i+1:]+"."+key)
	}
	// methods: (*pkg.T).M
	if callee.Signature.Recv() != nil {
		rt := callee.Signature.Recv().Type()
		cands = append(cands, "("+types.TypeString(rt, u.eng.qual)+")."+callee.Name())
	}
	for _, k := range cands {
		if c, ok := u.eng.contracts.Funcs[k]; ok {
			return c, callee, k
		}
	}
	return nil, callee, cands[0]
}

// ---------- calls ----------

func (u *Unit) execCall(st *State, instr ssa.Instruction, common *ssa.CallCommon) []Term {
	if b, ok := common.Value.(*ssa.Builtin); ok {
		return u.execBuiltin(st, instr, b, common)
	}
	var args []Term
	var argTypes []types.Type
	if common.IsInvoke() {
		recv := u.val(st, common.Value)
		u.nilCheck(st, recv, instr.Pos(), "method call on nil interface value")
		args = append(args, recv)
		argTypes = append(argTypes, common.Value.Type())
	}
	sig := common.Signature()
	if !common.IsInvoke() && sig.Recv() != nil {
		// method call in call mode: receiver is Args[0]
	}
	for _, a := range common.Args {
		args = append(args, u.val(st, a))
		argTypes = append(argTypes, a.Type())
	}
	c, callee, name := u.calleeContract(common)
	u.ghostBeforeCall(st, instr, name)
	u.assertsAtCall(st, instr, name, args...)
	u.lockAtCall(st, instr, callee, c)
	// closures: free variables are bound at the MakeClosure
	var closure *ssa.MakeClosure
	if mc, ok := common.Value.(*ssa.MakeClosure); ok {
		closure = mc
	}
	if callee == nil && !common.IsInvoke() {
		// the value loaded from a captured cell of the parent that holds a single-assignment closure
		if mc2, ok := u.resolveCellCall(common); ok {
			closure = mc2
			callee = mc2.Fn.(*ssa.Function)
			c = u.eng.contractFor(callee)
			name = funcPkgPath(callee) + "." + funcKey(callee)
		}
	}
	if callee == nil && !common.IsInvoke() {
		// call through a function value
		fv := u.val(st, common.Value)
		u.oblige(st, "safety", instr.Pos(), not(eq(fv, intLit(0))), "call of nil function value", u.safetyTags())
		st.assume(not(eq(fv, intLit(0))))
		if c == nil {
			// no function-type contract for the static type: resolve over the possible targets
			if rs, ok := u.tableCall(st, instr, common, fv, args); ok {
				return rs
			}
			if rs, ok := u.dynCall(st, instr, common, args); ok {
				return rs
			}
		}
	}
	resTypes := resultTypes(sig)
	if c == nil {
		if callee != nil && callee.Signature.Recv() != nil && len(args) > 0 && u.eng.inRepo(calleePkg(callee)) {
			if _, isPtr := callee.Params[0].Type().Underlying().(*types.Pointer); isPtr && !nilGuarded(callee) {
				u.oblige(st, "safety", instr.Pos(), not(eq(args[0], intLit(0))), "nil receiver for "+shortName(name), u.safetyTags())
				st.assume(not(eq(args[0], intLit(0))))
			}
		}
		return u.havocCall(st, instr, name, callee, resTypes)
	}
	defer u.assertsAfterWrites(st, instr, c.GhostWrites)
	defer u.ghostAfterCall(st, instr, name)
	if c.Extern {
		u.usedExternal[name] = true
	} else if c.Trusted {
		tf := ""
		if c.TypeFrame {
			tf = " (its `preserves` clause is checked by a type-reachability argument)"
		}
		u.usedExternal["trusted contract on /repo function "+name+": body not verified"+tf] = true
	} else {
		u.usedContracts[name] = true
	}
	return u.applyContract(st, instr, c, name, callee, closure, args, argTypes, resTypes)
}

func resultTypes(sig *types.Signature) []types.Type {
	var out []types.Type
	for i := 0; i < sig.Results().Len(); i++ {
		out = append(out, sig.Results().At(i).Type())
	}
	return out
}

// havocCall models a call to a function without contract: results unconstrained, heap havocked.
func (u *Unit) havocCall(st *State, instr ssa.Instruction, name string, callee *ssa.Function, resTypes []types.Type) []Term {
	if callee != nil && u.eng.inRepo(calleePkg(callee)) {
		u.note(fmt.Sprintf("%s: call to %s has no contract: results unconstrained, whole heap havocked", u.key, name))
	} else {
		u.note(fmt.Sprintf("%s: external call %s has no contract: results unconstrained, whole heap havocked, assumed not to panic or hang", u.key, name))
	}
	u.frameCallAll(st, instr.Pos(), name)
	u.havocAll(st)
	u.advanceAlloc(st)
	var rs []Term
	for i, t := range resTypes {
		rs = append(rs, u.freshOf(st, fmt.Sprintf("r%d_%s", i, shortName(name)), t))
	}
	// ghost state: a /repo function without contract may run any ghost update; an external one may change
	// the ghost state that models the world outside the program
	inRepo := callee != nil && u.eng.inRepo(calleePkg(callee))
	var written []string
	for _, gv := range u.eng.contracts.GhostGlobals {
		if cur, ok := st.ghost[gv.Name]; ok && (inRepo || gv.External) {
			nv := u.fresh(st, "ghost_"+gv.Name, cur.Sort, nil)
			nv.T = cur.T
			st.ghost[gv.Name] = nv
			written = append(written, gv.Name)
		}
	}
	u.assertsAfterWrites(st, instr, written)
	u.afterCall(st, name)
	return rs
}

// assertsAfterWrites: `assert after writes of G: expr` is an invariant of the ghost state G that is proved
// after every call that may change G — with G changed only by calls, that is every program point.
func (u *Unit) assertsAfterWrites(st *State, instr ssa.Instruction, written []string) {
	if u.contract == nil || len(written) == 0 {
		return
	}
	for _, a := range u.contract.Asserts {
		if !strings.HasPrefix(a.Where, "after writes of ") {
			continue
		}
		want := strings.TrimSpace(strings.TrimPrefix(a.Where, "after writes of "))
		hit := false
		for _, w := range written {
			if w == want {
				hit = true
			}
		}
		if !hit {
			continue
		}
		ctx := u.newCtx(st, u.entry)
		u.bindLocals(ctx, st, instr.Block())
		g := ctx.eval(a.Clause.Expr)
		s2 := st
		if len(ctx.side) > 0 {
			s2 = st.clone()
			for _, s := range ctx.side {
				s2.assume(s)
			}
		}
		u.oblige(s2, "assert", instr.Pos(), g, "after every change of "+want+": "+a.Clause.Text, a.Clause.Tags)
	}
}

func calleePkg(f *ssa.Function) *types.Package {
	for f.Parent() != nil {
		f = f.Parent()
	}
	if f.Pkg != nil {
		return f.Pkg.Pkg
	}
	if f.Object() != nil {
		return f.Object().Pkg()
	}
	return nil
}

func shortName(n string) string {
	if i := strings.LastIndexAny(n, "./"); i >= 0 {
		n = n[i+1:]
	}
	return sanitize(n)
}

// applyContract: check pre, havoc the frame, assume post.
func (u *Unit) applyContract(st *State, instr ssa.Instruction, c *Contract, name string, callee *ssa.Function, closure *ssa.MakeClosure,
	args []Term, argTypes []types.Type, resTypes []types.Type) []Term {
	if len(c.Params) != len(args) {
		panic(evalErr{fmt.Sprintf("contract %s names %d parameters, call has %d arguments", name, len(c.Params), len(args))})
	}
	var pkg *types.Package
	if callee != nil {
		pkg = calleePkg(callee)
	}
	if pkg == nil && c.Pkg != "" {
		pkg = u.eng.pkgByPath(c.Pkg)
	}
	if pkg == nil && u.fn.Pkg != nil {
		pkg = u.fn.Pkg.Pkg
	}
	bind := func(ctx *EvalCtx) {
		ctx.vars = map[string]Term{}
		ctx.pkg = pkg
		for i, p := range c.Params {
			a := args[i]
			var pt types.Type
			if callee != nil && i < len(callee.Params) {
				pt = callee.Params[i].Type()
			} else {
				pt = argTypes[i]
			}
			a.T = pt
			ctx.vars[p] = a
		}
		if closure != nil {
			ctx.cells = u.closureCells(ctx.st, closure)
			fn := closure.Fn.(*ssa.Function)
			for i, fv := range fn.FreeVars {
				b := closure.Bindings[i]
				if l, ok := ctx.st.locs[b]; ok {
					ctx.vars[fv.Name()] = u.loadLoc(ctx.st, l)
				} else if t, ok := ctx.st.vals[b]; ok {
					ctx.vars[fv.Name()] = t
				} else if l, ok := u.parentCellLoc(b); ok {
					ctx.vars[fv.Name()] = u.loadLoc(ctx.st, l)
				}
			}
			// variables of the closure's parent that sibling closures capture are visible by name too
			for name, cell := range u.capturedCells(fn.Parent()) {
				if _, clash := ctx.vars[name]; clash {
					continue
				}
				if l, ok := ctx.st.locs[cell]; ok {
					ctx.vars[name] = u.loadLoc(ctx.st, l)
				} else if l, ok := u.parentCellLoc(cell); ok {
					ctx.vars[name] = u.loadLoc(ctx.st, l)
				}
			}
		}
	}
	pos := instr.Pos()
	// applicability guard of external contracts
	guard := tTrue
	for _, w := range c.When {
		ctx := &EvalCtx{u: u, st: st, bound: map[string]bool{}}
		bind(ctx)
		guard = and(guard, ctx.eval(w.Expr))
	}
	for _, r := range c.Requires {
		ctx := &EvalCtx{u: u, st: st, old: nil, bound: map[string]bool{}}
		bind(ctx)
		g := ctx.eval(r.Expr)
		s2 := st
		if len(ctx.side) > 0 {
			s2 = st.clone()
			for _, s := range ctx.side {
				s2.assume(s)
			}
		}
		kind := "pre"
		if strings.Contains(r.Text, "excl") || strings.Contains(r.Text, "held") {
			kind = "lock"
		}
		u.oblige(s2, kind, pos, g, shortName(name)+": "+r.Text, nil)
		st.assume(g)
	}
	u.lockEffects(st, c, name, args, pos)
	// frame of the callee (locations are evaluated in the pre-state, which st still is)
	var pre *State
	if !c.Pure && !(c.Applies != "" && !c.HasModifies && len(c.Preserves) == 0) {
		// make sure every component the postconditions may read in the old state exists before the snapshot
		pre = st.clone()
		mark := len(pre.lines)
		u.havocFrame(st, pre, c, name, bind, pos)
		st.mergeLines(pre.lines[mark:])
		u.advanceAlloc(st)
	} else {
		pre = st.clone()
		u.advanceAlloc(st)
	}
	preMark := len(pre.lines)
	var rs []Term
	for i, t := range resTypes {
		rs = append(rs, u.freshOf(st, fmt.Sprintf("r%d_%s", i, shortName(name)), t))
	}
	if len(c.Results) != 0 && len(c.Results) != len(rs) {
		panic(evalErr{fmt.Sprintf("contract %s names %d results, call yields %d", name, len(c.Results), len(rs))})
	}
	// modifies clauses that mention results (fresh objects returned by the callee)
	u.havocResultFrame(st, c, bind, rs, resTypes)
	for _, g := range c.GhostWrites {
		if cur, ok := st.ghost[g]; ok {
			nv := u.fresh(st, "ghost_"+g, cur.Sort, nil)
			nv.T = cur.T
			st.ghost[g] = nv
		}
	}
	closureArgs := map[string]*ssa.MakeClosure{}
	if ci, ok := instr.(ssa.CallInstruction); ok {
		cc := ci.Common()
		off := len(c.Params) - len(cc.Args)
		for i, a := range cc.Args {
			v := a
			if ct, ok := v.(*ssa.ChangeType); ok {
				v = ct.X
			}
			if mc, ok := v.(*ssa.MakeClosure); ok && i+off >= 0 && i+off < len(c.Params) {
				closureArgs[c.Params[i+off]] = mc
			}
		}
	}
	if c.Applies != "" {
		u.applyHOF(st, pre, instr, c, name, closureArgs[c.Applies])
	}
	calleeGhost := map[string]Term{}
	for _, gv := range c.GhostVars {
		sort := map[string]string{"int": SInt, "bool": SBool, "string": SStr, "intarray": arraySort(SInt, SInt),
			"strarray": arraySort(SInt, SStr), "boolarray": arraySort(SInt, SBool)}[gv.Sort]
		if sort != "" {
			// the callee's ghost witnesses exist: fresh constants at the call site
			calleeGhost[gv.Name] = u.fresh(st, "ghost_"+gv.Name, sort, nil)
		}
	}
	for _, e := range c.Ensures {
		if hasTag(e.Tags, "assumed") {
			u.usedExternal["assumed clause of "+name+" (not proved against its body): "+e.Text] = true
		}
		ctx := &EvalCtx{u: u, st: st, old: pre, bound: map[string]bool{}}
		bind(ctx)
		ctx.closureArgs = closureArgs
		for k, v := range calleeGhost {
			ctx.vars[k] = v
		}
		for i, n := range c.Results {
			t := rs[i]
			t.T = resTypes[i]
			ctx.vars[n] = t
		}
		// logical variables of the callee: universally quantified in the assumed clause
		var lvs []string
		for _, lv := range c.Logical {
			t := u.eng.resolveType(pkg, lv.Type)
			u.nfresh++
			bn := fmt.Sprintf("%s?%d", lv.Name, u.nfresh)
			ctx.vars[lv.Name] = mkT(bn, u.sortOf(t), t)
			ctx.bound[bn] = true
			lvs = append(lvs, fmt.Sprintf("(%s %s)", bn, u.sortOf(t)))
		}
		g := ctx.eval(e.Expr)
		if len(lvs) > 0 && mentionsAny(g.S, lvs) {
			g = mk(fmt.Sprintf("(forall (%s) %s)", strings.Join(lvs, " "), g.S), SBool)
		}
		// constants the old-state evaluation had to introduce belong to this path too
		if len(pre.lines) > preMark {
			st.mergeLines(pre.lines[preMark:])
			preMark = len(pre.lines)
		}
		for _, s := range ctx.side {
			st.assume(s)
		}
		st.assume(implies(guard, g))
	}
	if c.Deterministic {
		for i := range rs {
			switch rs[i].Sort {
			case SInt, SBool, SStr:
				if _, isIface := resTypes[i].Underlying().(*types.Interface); isIface {
					// error identity is not a function of the arguments, its nil-ness is
					st.assume(eq(eq(rs[i], intLit(0)), eq(u.detResult(c, i, args), intLit(0))))
					continue
				}
				st.assume(eq(rs[i], u.detResult(c, i, args)))
			}
		}
	}
	u.afterCall(st, name)
	return rs
}

// detResult: the i-th result of a deterministic function as an uninterpreted function of its arguments.
func (u *Unit) detResult(c *Contract, i int, args []Term) Term {
	name := fmt.Sprintf("det_%s_%s_%d", sanitize(shortName(c.Pkg)), sanitize(c.Key), i)
	var sorts []string
	for _, a := range args {
		sorts = append(sorts, a.Sort)
	}
	// result sort: from the function's signature
	rs := SStr
	var rt types.Type = types.Typ[types.String]
	if fn := u.eng.contractFunc(c); fn != nil {
		rt = fn.Signature.Results().At(i).Type()
		rs = u.sortOf(rt)
	}
	u.pre.declFun(name, fmt.Sprintf("(declare-fun %s (%s) %s)", name, strings.Join(sorts, " "), rs))
	u.note("deterministic: results of " + c.Key + " are a function of its (scalar) arguments")
	r := app(name, rs, args...)
	r.T = rt
	u.detAxiom(c)
	if c.Extern {
		// declared laws of an external function used as a spec function (assumed, listed in the evidence)
		k := c.Key
		if j := strings.LastIndex(k, "."); j >= 0 {
			k = k[j+1:]
		}
		u.useAxiomsFor(k, fmt.Sprintf("(det_%s_%s_", sanitize(shortName(c.Pkg)), sanitize(c.Key)))
	}
	return r
}

// detAxiom turns the contract of a deterministic scalar function into a universally quantified
// fact about its result functions (sound because the contract is itself verified, or listed as assumed).
func (u *Unit) detAxiom(c *Contract) {
	if u.axiomsUsed == nil {
		u.axiomsUsed = map[string]bool{}
	}
	key := "det:" + c.Pkg + "." + c.Key
	if u.axiomsUsed[key] {
		return
	}
	u.axiomsUsed[key] = true
	fn := u.eng.contractFunc(c)
	if fn == nil {
		return
	}
	if u.contract == c {
		// the function being verified must not assume its own contract
		return
	}
	ctx := &EvalCtx{u: u, st: u.entry, bound: map[string]bool{}, vars: map[string]Term{}}
	ctx.pkg = u.eng.pkgByPath(c.Pkg)
	var decls []string
	var args []Term
	for i, p := range fn.Params {
		u.nfresh++
		bn := fmt.Sprintf("%s?%d", sanitize(c.Params[i]), u.nfresh)
		t := mkT(bn, u.sortOf(p.Type()), p.Type())
		ctx.vars[c.Params[i]] = t
		ctx.bound[bn] = true
		decls = append(decls, fmt.Sprintf("(%s %s)", bn, t.Sort))
		args = append(args, t)
	}
	var pats []string
	for i, rn := range c.Results {
		r := u.detResult(c, i, args)
		ctx.vars[rn] = r
		pats = append(pats, ":pattern ("+r.S+")")
	}
	for _, lv := range c.Logical {
		t := u.eng.resolveType(ctx.pkg, lv.Type)
		u.nfresh++
		bn := fmt.Sprintf("%s?%d", lv.Name, u.nfresh)
		ctx.vars[lv.Name] = mkT(bn, u.sortOf(t), t)
		ctx.bound[bn] = true
	}
	guard := tTrue
	for _, w := range c.When {
		guard = and(guard, ctx.eval(w.Expr))
	}
	var body []Term
	for _, e := range c.Ensures {
		if strings.Contains(e.Text, "fresh(") {
			continue
		}
		// clauses with logical variables get their own inner quantifier
		var lvs []string
		for _, lv := range c.Logical {
			lvs = append(lvs, fmt.Sprintf("(%s %s)", ctx.vars[lv.Name].S, ctx.vars[lv.Name].Sort))
		}
		g := ctx.eval(e.Expr)
		if len(lvs) > 0 && mentionsAny(g.S, lvs) {
			g = mk(fmt.Sprintf("(forall (%s) %s)", strings.Join(lvs, " "), g.S), SBool)
		}
		body = append(body, g)
	}
	ax := fmt.Sprintf("(forall (%s) (! %s %s))", strings.Join(decls, " "), implies(guard, and(body...)).S, strings.Join(pats, " "))
	name := fmt.Sprintf("(det_%s_%s_", sanitize(shortName(c.Pkg)), sanitize(c.Key))
	u.pre.axiomFor(name, ax)
	u.usedContracts[c.Pkg+"."+c.Key+" (as spec function)"] = true
}

// useAxioms adds the declared axioms that mention an uninterpreted spec function.
func (u *Unit) useAxioms(uf string) { u.useAxiomsFor(uf, "(uf_"+uf+" ") }

// useAxiomsFor: subject is the SMT symbol whose occurrence in a query makes the axiom relevant.
func (u *Unit) useAxiomsFor(uf string, subject string) {
	if u.axiomsUsed == nil {
		u.axiomsUsed = map[string]bool{}
	}
	if u.axiomsUsed[uf] {
		return
	}
	u.axiomsUsed[uf] = true
	for _, ax := range u.eng.contracts.Axioms {
		if !strings.Contains(ax.Clause.Text, uf+"(") {
			continue
		}
		if u.axiomsUsed["@"+ax.Name] {
			continue
		}
		u.axiomsUsed["@"+ax.Name] = true
		ctx := &EvalCtx{u: u, st: u.entry, bound: map[string]bool{}, vars: map[string]Term{}}
		ctx.pkg = u.eng.pkgByPath(ax.Pkg)
		g := ctx.eval(ax.Clause.Expr)
		// relevant to a query that mentions any spec function of the axiom
		subj := map[string]bool{subject: true}
		for _, m := range regexp.MustCompile(`\((uf|det)_[A-Za-z0-9_]+ `).FindAllString(g.S, -1) {
			subj[m] = true
		}
		u.pre.axiomFor(strings.Join(sortedKeys(subj), "|"), g.S)
		u.usedExternal["axiom "+ax.Name+": "+ax.Clause.Text] = true
	}
}

func mentionsAny(s string, decls []string) bool {
	for _, d := range decls {
		n := strings.Fields(strings.Trim(d, "()"))[0]
		if strings.Contains(s, n) {
			return true
		}
	}
	return false
}

func (u *Unit) callPreOnly(st *State, instr ssa.Instruction, common *ssa.CallCommon) {
	c, callee, name := u.calleeContract(common)
	if c == nil {
		return
	}
	var args []Term
	var argTypes []types.Type
	for _, a := range common.Args {
		args = append(args, u.val(st, a))
		argTypes = append(argTypes, a.Type())
	}
	if len(c.Params) != len(args) {
		return
	}
	for _, r := range c.Requires {
		if strings.Contains(r.Text, "held") || strings.Contains(r.Text, "excl") {
			// the spawned goroutine has its own relation to the mutex
			continue
		}
		ctx := &EvalCtx{u: u, st: st, bound: map[string]bool{}, vars: map[string]Term{}}
		if callee != nil {
			ctx.pkg = calleePkg(callee)
		}
		for i, p := range c.Params {
			a := args[i]
			a.T = argTypes[i]
			ctx.vars[p] = a
		}
		g := ctx.eval(r.Expr)
		u.oblige(st, "pre", instr.Pos(), g, shortName(name)+" (go): "+r.Text, nil)
	}
}

func (u *Unit) afterCall(st *State, name string) {}

func (u *Unit) afterBlocking(st *State) {}

// ---------- builtins ----------

func (u *Unit) execBuiltin(st *State, instr ssa.Instruction, b *ssa.Builtin, common *ssa.CallCommon) []Term {
	switch b.Name() {
	case "len":
		v := u.val(st, common.Args[0])
		switch common.Args[0].Type().Underlying().(type) {
		case *types.Basic:
			return []Term{mkT("(slen "+v.S+")", SInt, types.Typ[types.Int])}
		case *types.Slice:
			return []Term{mkT("(slen_ "+v.S+")", SInt, types.Typ[types.Int])}
		case *types.Map:
			mc := u.mapComps(common.Args[0].Type())
			u.mapFacts(st, mc, v, nil)
			u.guardedMapAccess(st, common.Args[0], instr.Pos(), false)
			r := u.define(st, "maplen", u.mapCard(st, mc, v))
			r.T = types.Typ[types.Int]
			// a non-empty map has a key
			st.assume(mk(fmt.Sprintf("(=> (< 0 %s) (exists ((k %s)) (select %s k)))", r.S, mc.ks, u.mapDom(st, mc, v).S), SBool))
			return []Term{r}
		case *types.Pointer:
			at := common.Args[0].Type().Underlying().(*types.Pointer).Elem().Underlying().(*types.Array)
			return []Term{intLit(at.Len())}
		}
	case "cap":
		v := u.val(st, common.Args[0])
		if _, ok := common.Args[0].Type().Underlying().(*types.Slice); ok {
			return []Term{mkT("(scap "+v.S+")", SInt, types.Typ[types.Int])}
		}
	case "append":
		return []Term{u.execAppend(st, instr, common)}
	case "copy":
		return []Term{u.execCopy(st, instr, common)}
	case "delete":
		m := u.val(st, common.Args[0])
		k := u.val(st, common.Args[1])
		u.guardedMapAccess(st, common.Args[0], instr.Pos(), true)
		mc := u.mapComps(common.Args[0].Type())
		u.frameMapWrite(st, mc, m, instr.Pos())
		u.mapDelete(st, mc, m, k)
		return nil
	case "ssa:wrapnilchk":
		v := u.val(st, common.Args[0])
		u.nilCheck(st, v, instr.Pos(), "nil receiver in method value wrapper")
		return []Term{v}
	case "print", "println":
		return nil
	case "min", "max":
		a, bb := u.val(st, common.Args[0]), u.val(st, common.Args[1])
		if b.Name() == "min" {
			return []Term{ite(le(a, bb), a, bb)}
		}
		return []Term{ite(le(a, bb), bb, a)}
	}
	panic(unsupported("builtin " + b.Name()))
}

// singleAppend recognises append(s, x) compiled as a one-element varargs array.
func (u *Unit) singleAppend(st *State, arg ssa.Value) (Term, bool) {
	sl, ok := arg.(*ssa.Slice)
	if !ok || sl.Low != nil || sl.High != nil {
		return Term{}, false
	}
	al, ok := sl.X.(*ssa.Alloc)
	if !ok || al.Comment != "varargs" {
		return Term{}, false
	}
	at := al.Type().(*types.Pointer).Elem().Underlying().(*types.Array)
	if at.Len() != 1 {
		return Term{}, false
	}
	if _, isS := isStruct(at.Elem()); isS {
		return Term{}, false
	}
	comp, cs := u.elemComp(at.Elem())
	v := u.loadLoc(st, Loc{Kind: 2, Comp: comp, CSort: cs, Ref: u.val(st, al), Idx: intLit(0), T: at.Elem()})
	return v, true
}

func (u *Unit) execAppend(st *State, instr ssa.Instruction, common *ssa.CallCommon) Term {
	s := u.val(st, common.Args[0])
	st0 := common.Args[0].Type()
	slt, ok := st0.Underlying().(*types.Slice)
	if !ok {
		panic(unsupported("append to non-slice"))
	}
	et := slt.Elem()
	if _, isS := isStruct(et); isS {
		return u.execAppendStruct(st, instr, common, s, et)
	}
	comp, cs := u.elemComp(et)
	inner := arrayElemSort(cs)
	es := arrayElemSort(inner)
	h := u.heapGet(st, comp, cs)
	sb, so, sn, sc := app("sbase", SInt, s), app("soff", SInt, s), app("slen_", SInt, s), app("scap", SInt, s)
	var tn Term
	one, isOne := u.singleAppend(st, common.Args[1])
	var t Term
	var tIsStr bool
	if isOne {
		tn = intLit(1)
	} else {
		t = u.val(st, common.Args[1])
		if t.Sort == SStr {
			tIsStr = true
			tn = app("slen", SInt, t)
		} else {
			tn = app("slen_", SInt, t)
		}
	}
	need := u.define(st, "need", add(sn, tn))
	inplace := u.define(st, "inplace", le(need, sc))
	fresh := u.allocRef(st, "grown")
	newcap := u.fresh(st, "newcap", SInt, nil)
	st.assume(and(le(need, newcap), le(newcap, bigLit("9223372036854775807"))))
	rb := u.define(st, "rbase", ite(inplace, sb, fresh))
	ro := u.define(st, "roff", ite(inplace, so, intLit(0)))
	rc := u.define(st, "rcap", ite(inplace, sc, newcap))
	r := u.define(st, instr.(ssa.Value).Name(), mkT(fmt.Sprintf("(mkslice %s %s %s %s)", rb.S, ro.S, need.S, rc.S), SSlice, instr.(ssa.Value).Type()))
	oldArr := sel(h, sb, inner)
	na := u.fresh(st, "appended", inner, nil)
	_ = es
	// prefix: the first len(s) elements of the result are those of s
	st.assume(mk(fmt.Sprintf("(forall ((i Int)) (! (=> (and (<= 0 i) (< i %s)) (= (select %s (sidx %s i)) (select %s (sidx %s i)))) :pattern ((select %s (sidx %s i))) :pattern ((select %s (sidx %s i)))))", sn.S, na.S, r.S, oldArr.S, s.S, na.S, r.S, oldArr.S, s.S), SBool))
	// suffix: the appended elements
	if isOne {
		st.assume(eq(sel(na, app("sidx", SInt, r, sn), es), one))
	} else {
		var src string
		if tIsStr {
			src = fmt.Sprintf("(sat %s j)", t.S)
		} else {
			src = fmt.Sprintf("(select (select %s (sbase %s)) (sidx %s j))", h.S, t.S, t.S)
		}
		st.assume(mk(fmt.Sprintf("(forall ((j Int)) (! (=> (and (<= 0 j) (< j %s)) (= (select %s (sidx %s (+ %s j))) %s)) :pattern (%s)))", tn.S, na.S, r.S, sn.S, src, src), SBool))
		st.assume(mk(fmt.Sprintf("(forall ((k Int)) (! (=> (and (<= %s k) (< k %s)) (= (select %s (sidx %s k)) %s)) :pattern ((select %s (sidx %s k)))))", sn.S, need.S, na.S, r.S,
			strings.ReplaceAll(src, " j)", " (- k "+sn.S+"))"), na.S, r.S), SBool))
	}
	// in place: everything outside the written range keeps its value
	st.assume(mk(fmt.Sprintf("(=> %s (forall ((k Int)) (! (=> (or (< k (+ %s %s)) (>= k (+ %s %s))) (= (select %s k) (select %s k))) :pattern ((select %s k)))))", inplace.S, ro.S, sn.S, ro.S, need.S, na.S, oldArr.S, na.S), SBool))
	// frame: an in-place append writes the backing array of s
	u.frameAppend(st, comp, sb, inplace, tn, instr.Pos())
	u.heapSet(st, comp, store(h, rb, na))
	return r
}

func unusedAppendTail() {
}

func (u *Unit) execAppendStruct(st *State, instr ssa.Instruction, common *ssa.CallCommon, s Term, et types.Type) Term {
	// result: same length arithmetic; element contents of struct-valued slices are modelled
	// only for the single-element form, by scattering the new element; a reallocation copies
	// every leaf component of the prefix.
	sl, ok := common.Args[1].(*ssa.Slice)
	var al *ssa.Alloc
	if ok {
		al, _ = sl.X.(*ssa.Alloc)
	}
	if al == nil || al.Comment != "varargs" || al.Type().(*types.Pointer).Elem().Underlying().(*types.Array).Len() != 1 {
		panic(unsupported("append of several struct-valued elements"))
	}
	sb, so, sn, sc := app("sbase", SInt, s), app("soff", SInt, s), app("slen_", SInt, s), app("scap", SInt, s)
	need := u.define(st, "need", add(sn, intLit(1)))
	inplace := u.define(st, "inplace", le(need, sc))
	fresh := u.allocRef(st, "grown")
	newcap := u.fresh(st, "newcap", SInt, nil)
	st.assume(le(need, newcap))
	rb := u.define(st, "rbase", ite(inplace, sb, fresh))
	ro := u.define(st, "roff", ite(inplace, so, intLit(0)))
	rc := u.define(st, "rcap", ite(inplace, sc, newcap))
	// copy of the prefix on reallocation: for every leaf component, quantified
	comps := map[string]string{}
	u.structComps(et, comps)
	ea := "ea_" + u.eng.tn.mangle(et)
	u.elemRef(et, sb, so) // declares ea
	elemVal := u.gather(st, et, u.elemRef(et, u.val(st, al), intLit(0)))
	elemVal = u.define(st, "elem", elemVal)
	u.copyStructPrefix(st, et, ea, inplace, fresh, sb, so, sn, "")
	u.frameAppend(st, "ea:"+corePkg(et), sb, inplace, intLit(1), instr.Pos())
	u.scatter(st, et, u.elemRef(et, rb, add(ro, sn)), elemVal)
	r := mkT(fmt.Sprintf("(mkslice %s %s %s %s)", rb.S, ro.S, need.S, rc.S), SSlice, instr.(ssa.Value).Type())
	return u.define(st, instr.(ssa.Value).Name(), r)
}

// copyStructPrefix: when an append reallocates, leaf component c at ea(fresh,i) takes the value it had at ea(old,off+i).
func (u *Unit) copyStructPrefix(st *State, t types.Type, ea string, inplace, fresh, sb, so, sn Term, path string) {
	s := t.Underlying().(*types.Struct)
	for i := 0; i < s.NumFields(); i++ {
		ft := s.Field(i).Type()
		if _, ok := isStruct(ft); ok {
			sub := "sub_" + u.eng.tn.mangle(t) + "_" + sanitize(s.Field(i).Name())
			u.subRef(t, i, intLit(1))
			u.copyStructPrefix(st, ft, ea, inplace, fresh, sb, so, sn, path+"("+sub+" ")
			continue
		}
		comp, cs, _ := u.fieldComp(t, i)
		h := u.heapGet(st, comp, cs)
		nh := u.fresh(st, comp, cs, nil)
		closeP := strings.Repeat(")", strings.Count(path, "("))
		dst := fmt.Sprintf("%s(%s %s i)%s", path, ea, fresh.S, closeP)
		src := fmt.Sprintf("%s(%s %s (+ %s i))%s", path, ea, sb.S, so.S, closeP)
		st.assume(mk(fmt.Sprintf("(=> (not %s) (forall ((i Int)) (! (=> (and (<= 0 i) (< i %s)) (= (select %s %s) (select %s %s))) :pattern ((select %s %s)))))", inplace.S, sn.S, nh.S, dst, h.S, src, nh.S, dst), SBool))
		st.assume(mk(fmt.Sprintf("(forall ((r Int)) (! (=> (<= (own r) %s) (= (select %s r) (select %s r))) :pattern ((select %s r))))", st.alloc.S, nh.S, h.S, nh.S), SBool))
		st.assume(implies(inplace, eq(nh, h)))
		u.heapSet(st, comp, nh)
	}
}

func (u *Unit) execCopy(st *State, instr ssa.Instruction, common *ssa.CallCommon) Term {
	dst := u.val(st, common.Args[0])
	src := u.val(st, common.Args[1])
	et := common.Args[0].Type().Underlying().(*types.Slice).Elem()
	if _, isS := isStruct(et); isS {
		panic(unsupported("copy of struct-valued slices"))
	}
	comp, cs := u.elemComp(et)
	inner := arrayElemSort(cs)
	h := u.heapGet(st, comp, cs)
	var sn Term
	if src.Sort == SStr {
		sn = app("slen", SInt, src)
	} else {
		sn = app("slen_", SInt, src)
	}
	n := u.define(st, "ncopy", ite(le(app("slen_", SInt, dst), sn), app("slen_", SInt, dst), sn))
	n.T = types.Typ[types.Int]
	na := u.fresh(st, "copied", inner, nil)
	db, do := app("sbase", SInt, dst), app("soff", SInt, dst)
	oldArr := sel(h, db, inner)
	var srcAt string
	if src.Sort == SStr {
		srcAt = fmt.Sprintf("(sat %s j)", src.S)
	} else {
		srcAt = fmt.Sprintf("(select (select %s (sbase %s)) (sidx %s j))", h.S, src.S, src.S)
	}
	st.assume(mk(fmt.Sprintf("(forall ((j Int)) (! (=> (and (<= 0 j) (< j %s)) (= (select %s (sidx %s j)) %s)) :pattern ((select %s (sidx %s j)))))", n.S, na.S, dst.S, srcAt, na.S, dst.S), SBool))
	st.assume(mk(fmt.Sprintf("(forall ((i Int)) (! (=> (or (< i %s) (>= i (+ %s %s))) (= (select %s i) (select %s i))) :pattern ((select %s i))))", do.S, do.S, n.S, na.S, oldArr.S, na.S), SBool))
	u.frameAppend(st, comp, db, lt(intLit(0), n), n, instr.Pos())
	u.heapSet(st, comp, ite(lt(intLit(0), n), store(h, db, na), h))
	return n
}

// ---------- defers ----------

func (u *Unit) runDefers(st *State) {
	for i := len(st.defers) - 1; i >= 0; i-- {
		d := st.defers[i]
		rs := u.execCall(st, d, &d.Call)
		_ = rs
	}
	st.defers = nil
}

var _ = token.NoPos

// assertsAtCall: checked hints `assert at call of F: expr` are proved where F is called and then assumed.
func (u *Unit) assertsAtCall(st *State, instr ssa.Instruction, name string, args ...Term) {
	if u.contract == nil {
		return
	}
	for _, a := range u.contract.Asserts {
		if !strings.HasPrefix(a.Where, "call of ") {
			continue
		}
		want := strings.TrimSpace(strings.TrimPrefix(a.Where, "call of "))
		if shortName(name) != want && !strings.HasSuffix(name, "."+want) && !strings.HasSuffix(name, ")."+want) && !strings.HasSuffix(name, "/"+want) {
			continue
		}
		ctx := u.newCtx(st, u.entry)
		u.bindLocals(ctx, st, instr.Block())
		for i, a := range args {
			// #arg0, #arg1, ...: the arguments of this call (receiver first)
			ctx.vars[fmt.Sprintf("__h_arg%d", i)] = a
		}
		g := ctx.eval(a.Clause.Expr)
		for _, s := range ctx.side {
			st.assume(s)
		}
		u.oblige(st, "assert", instr.Pos(), g, a.Clause.Text, a.Clause.Tags)
		st.assume(g)
	}
}

// ghostAfterCall executes `ghost at after call of F: v = expr` updates in the state after the call.
func (u *Unit) ghostAfterCall(st *State, instr ssa.Instruction, name string) {
	if u.contract == nil {
		return
	}
	for _, g := range u.contract.Ghosts {
		if !strings.HasPrefix(g.At, "after call of ") {
			continue
		}
		want := strings.TrimSpace(strings.TrimPrefix(g.At, "after call of "))
		if shortName(name) != want {
			continue
		}
		ctx := u.newCtx(st, u.entry)
		u.bindLocals(ctx, st, instr.Block())
		u.ghostUpdates(st, g.At, ctx)
		return
	}
}

// closureEnv binds the free variables of a closure (created in this function) by name.
func (u *Unit) closureEnv(st *State, mc *ssa.MakeClosure) map[string]Term {
	env := map[string]Term{}
	for name, l := range u.closureCells(st, mc) {
		env[name] = u.loadLoc(st, l)
	}
	fn := mc.Fn.(*ssa.Function)
	for i, fv := range fn.FreeVars {
		if _, ok := env[fv.Name()]; ok {
			continue
		}
		if t, ok := st.vals[mc.Bindings[i]]; ok {
			env[fv.Name()] = t
		}
	}
	return env
}

// closureCells: the cells behind the free variables of a closure created in this function (or its parent).
func (u *Unit) closureCells(st *State, mc *ssa.MakeClosure) map[string]Loc {
	out := map[string]Loc{}
	fn := mc.Fn.(*ssa.Function)
	for i, fv := range fn.FreeVars {
		b := mc.Bindings[i]
		if l, ok := st.locs[b]; ok {
			out[fv.Name()] = l
		} else if l, ok := u.parentCellLoc(b); ok {
			out[fv.Name()] = l
		}
	}
	return out
}

// applyHOF: the callee only applies its function argument. The invariants of the closure passed hold
// before the call, the closure's frame is havocked (it may run any number of times), they hold after.
func (u *Unit) applyHOF(st *State, pre *State, instr ssa.Instruction, c *Contract, name string, mc *ssa.MakeClosure) {
	if mc == nil {
		u.note(fmt.Sprintf("%s: %s applies a function value that is not a closure created here: nothing is known about its effect", u.key, shortName(name)))
		u.havocAll(st)
		return
	}
	fn2 := mc.Fn.(*ssa.Function)
	c2 := u.eng.contractFor(fn2)
	if c2 == nil {
		u.note(fmt.Sprintf("%s: closure %s passed to %s has no contract: whole heap havocked", u.key, fn2.Name(), shortName(name)))
		u.havocAll(st)
		return
	}
	cname := funcPkgPath(fn2) + "." + funcKey(fn2)
	u.usedContracts[cname] = true
	if ci, ok := instr.(ssa.CallInstruction); ok {
		for _, a := range ci.Common().Args {
			v := a
			var nt types.Type = a.Type()
			if ct, ok := v.(*ssa.ChangeType); ok {
				v = ct.X
			}
			if v != ssa.Value(mc) {
				continue
			}
			if callee := ci.Common().StaticCallee(); callee != nil {
				// the parameter type of the callee is the function type its body is checked against
				for i, arg := range ci.Common().Args {
					if arg == a && i < len(callee.Params) {
						nt = callee.Params[i].Type()
					}
				}
			}
			if n, ok := nt.(*types.Named); ok && n.Obj().Pkg() != nil {
				ftName := n.Obj().Pkg().Path() + "." + n.Obj().Name()
				if ft, ok := u.eng.contracts.FuncTypes[ftName]; ok {
					u.refines(pre, instr, mc, c2, ft, n.Obj().Name())
				}
			}
		}
	}
	u.usedExternal[fmt.Sprintf("higher-order rule: %s only applies its function argument and does not itself write the footprint of the argument's invariants (assumed); the argument %s may run any number of times", shortName(name), funcKey(fn2))] = true
	mkctx := func(s *State, old *State) *EvalCtx {
		ctx := &EvalCtx{u: u, st: s, old: old, bound: map[string]bool{}, vars: map[string]Term{}}
		ctx.pkg = calleePkg(fn2)
		for k, v := range u.closureEnv(s, mc) {
			ctx.vars[k] = v
		}
		ctx.cells = u.closureCells(s, mc)
		for name, cell := range u.capturedCells(fn2.Parent()) {
			if _, clash := ctx.vars[name]; clash {
				continue
			}
			if l, ok := s.locs[cell]; ok {
				ctx.vars[name] = u.loadLoc(s, l)
				ctx.cells[name] = l
			} else if l, ok := u.parentCellLoc(cell); ok {
				ctx.vars[name] = u.loadLoc(s, l)
				ctx.cells[name] = l
			}
		}
		return ctx
	}
	// invariants hold before (pre is the state before the call)
	for _, inv := range c2.Invariants {
		ctx := mkctx(pre, nil)
		g := ctx.eval(inv.Expr)
		s2 := pre.clone()
		for _, sd := range ctx.side {
			s2.assume(sd)
		}
		u.oblige(s2, "pre", instr.Pos(), g, "invariant of "+funcKey(fn2)+" before "+shortName(name)+": "+inv.Text, inv.Tags)
	}
	// effects of any number of runs
	if !c2.Pure {
		if c2.HasModifies {
			ctx := mkctx(st, nil)
			var locs []frameLoc
			for _, m := range c2.Modifies {
				func() {
					defer func() {
						if r := recover(); r != nil {
							if _, ok := r.(evalErr); ok {
								u.note(fmt.Sprintf("%s: modifies entry %q of closure %s depends on its parameters; over-approximated by the whole component", u.key, m.Text, funcKey(fn2)))
								return
							}
							panic(r)
						}
					}()
					locs = append(locs, ctx.lvalues(m.Text)...)
				}()
			}
			for _, l := range locs {
				u.havocLoc(st, l, instr.Pos(), cname)
			}
		} else if len(c2.Preserves) > 0 {
			u.havocAllExcept(st, c2.Preserves)
		} else {
			u.havocAllPassing(st, mc)
		}
	}
	for _, g := range c2.GhostWrites {
		if cur, ok := st.ghost[g]; ok {
			nv := u.fresh(st, "ghost_"+g, cur.Sort, nil)
			nv.T = cur.T
			st.ghost[g] = nv
		}
	}
	u.advanceAlloc(st)
	for _, inv := range c2.Invariants {
		ctx := mkctx(st, pre)
		g := ctx.eval(inv.Expr)
		for _, sd := range ctx.side {
			st.assume(sd)
		}
		st.assume(g)
	}
}

// capturedCells: the named variables of a function that its closures capture.
func (u *Unit) capturedCells(parent *ssa.Function) map[string]ssa.Value {
	out := map[string]ssa.Value{}
	if parent == nil {
		return out
	}
	for _, b := range parent.Blocks {
		for _, ins := range b.Instrs {
			if mc, ok := ins.(*ssa.MakeClosure); ok {
				for _, bd := range mc.Bindings {
					if al, ok := bd.(*ssa.Alloc); ok && al.Comment != "" {
						out[al.Comment] = al
					}
				}
			}
		}
	}
	return out
}

// ghostBeforeCall executes `ghost at before call of F: v = expr` updates.
func (u *Unit) ghostBeforeCall(st *State, instr ssa.Instruction, name string) {
	if u.contract == nil {
		return
	}
	for _, g := range u.contract.Ghosts {
		if !strings.HasPrefix(g.At, "before call of ") {
			continue
		}
		if shortName(name) != strings.TrimSpace(strings.TrimPrefix(g.At, "before call of ")) {
			continue
		}
		ctx := u.newCtx(st, u.entry)
		u.bindLocals(ctx, st, instr.Block())
		u.ghostUpdates(st, g.At, ctx)
		return
	}
}

// refines: the contract c2 of the closure passed as a function value of named type T is compatible with the
// function-type contract of T that the callee's code is checked against: under T's preconditions and the
// closure's invariants the closure's own preconditions hold, and the closure's postconditions give T's.
func (u *Unit) refines(st *State, instr ssa.Instruction, mc *ssa.MakeClosure, c2 *Contract, ft *Contract, ftName string) {
	fn2 := mc.Fn.(*ssa.Function)
	if len(ft.Params) != len(fn2.Params) {
		u.oblige(st, "pre", instr.Pos(), tFalse, "function-type contract "+ftName+" and closure "+funcKey(fn2)+" disagree on the number of parameters", nil)
		return
	}
	s2 := st.clone()
	env := u.closureEnv(s2, mc)
	var ps []Term
	for _, p := range fn2.Params {
		ps = append(ps, u.freshOf(s2, "any_"+p.Name(), p.Type()))
	}
	mk := func(c *Contract, withEnv bool, s *State, old *State) *EvalCtx {
		ctx := &EvalCtx{u: u, st: s, old: old, bound: map[string]bool{}, vars: map[string]Term{}}
		ctx.pkg = calleePkg(fn2)
		if withEnv {
			for k, v := range env {
				ctx.vars[k] = v
			}
			for name, cell := range u.capturedCells(fn2.Parent()) {
				if _, clash := ctx.vars[name]; clash {
					continue
				}
				if l, ok := s.locs[cell]; ok {
					ctx.vars[name] = u.loadLoc(s, l)
				}
			}
		}
		for i, pn := range c.Params {
			t := ps[i]
			t.T = fn2.Params[i].Type()
			ctx.vars[pn] = t
		}
		return ctx
	}
	// T's preconditions and the closure's invariants ...
	for _, r := range ft.Requires {
		ctx := mk(ft, false, s2, nil)
		s2.assume(ctx.eval(r.Expr))
	}
	isInv := map[string]bool{}
	for _, inv := range c2.Invariants {
		isInv[inv.Text] = true
		ctx := mk(c2, true, s2, nil)
		g := ctx.eval(inv.Expr)
		for _, sd := range ctx.side {
			s2.assume(sd)
		}
		s2.assume(g)
	}
	// ... give the closure's preconditions
	for _, r := range c2.Requires {
		if isInv[r.Text] {
			continue
		}
		ctx := mk(c2, true, s2, nil)
		g := ctx.eval(r.Expr)
		s3 := s2.clone()
		for _, sd := range ctx.side {
			s3.assume(sd)
		}
		u.oblige(s3, "pre", instr.Pos(), g, funcKey(fn2)+" as "+ftName+": "+r.Text, r.Tags)
	}
	// the closure's postconditions give T's (over an arbitrary result; state-independent clauses only)
	if len(ft.Ensures) > 0 && len(c2.Results) == len(ft.Results) {
		s4 := s2.clone()
		sig := fn2.Signature.Results()
		var rs []Term
		for i := 0; i < sig.Len(); i++ {
			rs = append(rs, u.freshOf(s4, "any_result", sig.At(i).Type()))
		}
		bindRes := func(ctx *EvalCtx, c *Contract) {
			for i, n := range c.Results {
				t := rs[i]
				t.T = sig.At(i).Type()
				ctx.vars[n] = t
			}
		}
		for _, e := range c2.Ensures {
			func() {
				defer func() {
					if r := recover(); r != nil {
						if _, ok := r.(evalErr); !ok {
							panic(r)
						}
					}
				}()
				ctx := mk(c2, false, s4, nil)
				bindRes(ctx, c2)
				s4.assume(ctx.eval(e.Expr))
			}()
		}
		for _, e := range ft.Ensures {
			ctx := mk(ft, false, s4, nil)
			bindRes(ctx, ft)
			u.oblige(s4, "post", instr.Pos(), ctx.eval(e.Expr), funcKey(fn2)+" as "+ftName+" ensures: "+e.Text, e.Tags)
		}
	}
}
