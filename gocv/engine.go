package main

import (
	"fmt"
	"go/ast"
	"go/token"
	"go/types"
	"os"
	"path/filepath"
	"sort"
	"strings"

	"golang.org/x/tools/go/packages"
	"golang.org/x/tools/go/ssa"
	"golang.org/x/tools/go/ssa/ssautil"
)

var fsetScratch = token.NewFileSet()

type ufun struct {
	name, decl, ret string
}

type globalInfo struct {
	g *ssa.Global
}

// Engine holds the loaded program and the contracts.
type Engine struct {
	repo       string
	fset       *token.FileSet
	prog       *ssa.Program
	pkgs       []*packages.Package
	spkgs      map[string]*ssa.Package // by path
	tn         *typeNames
	contracts  *ContractSet
	kinds      map[string]int
	funcIDs    map[string]int
	globIDs    map[string]int
	typeTags   map[string]int
	compSort   map[string]string
	specConsts map[string]Term
	ufuns      map[string]ufun
	modulePath string
	fileHashes map[string]string
	guards     map[string]GuardDecl // "pkgpath.Struct.field" -> decl
	compRef map[string]string
	compPkg    map[string]string    // component -> package path of the named type it belongs to
	tables     map[*ssa.Global]*tableFact
	addrTaken  map[*ssa.Function]bool
	lockMemo   map[*ssa.Function]bool
}

func (e *Engine) qual(p *types.Package) string { return p.Name() }

func (e *Engine) kindOf(name string) int {
	if k, ok := e.kinds[name]; ok {
		return k
	}
	k := len(e.kinds) + 1
	e.kinds[name] = k
	return k
}

func (e *Engine) funcID(name string) int {
	if k, ok := e.funcIDs[name]; ok {
		return k
	}
	k := len(e.funcIDs) + 1
	e.funcIDs[name] = k
	return k
}

func (e *Engine) globalID(name string) int {
	if k, ok := e.globIDs[name]; ok {
		return k
	}
	k := len(e.globIDs) + 1
	e.globIDs[name] = k
	return k
}

func (e *Engine) typeTag(t types.Type) int {
	key := types.TypeString(types.Unalias(t), nil)
	if k, ok := e.typeTags[key]; ok {
		return k
	}
	k := len(e.typeTags) + 1
	e.typeTags[key] = k
	return k
}

func newEngine(repo string) *Engine {
	return &Engine{repo: repo, tn: newTypeNames(), kinds: map[string]int{}, funcIDs: map[string]int{}, globIDs: map[string]int{},
		typeTags: map[string]int{}, compSort: map[string]string{}, specConsts: map[string]Term{}, ufuns: map[string]ufun{},
		spkgs: map[string]*ssa.Package{}, fileHashes: map[string]string{}, guards: map[string]GuardDecl{}}
}

// load builds the SSA form of /repo's current working tree.
func (e *Engine) load(patterns ...string) error {
	cfg := &packages.Config{
		Mode:       packages.LoadAllSyntax | packages.NeedModule,
		Dir:        e.repo,
		BuildFlags: []string{"-tags=verif"},
		Env:        append(os.Environ(), "GOOS=linux", "GOARCH=amd64", "GOFLAGS=-mod=mod", "GOPROXY=off", "GOSUMDB=off", "GOTOOLCHAIN=local", "CGO_ENABLED=0"),
	}
	pkgs, err := packages.Load(cfg, patterns...)
	if err != nil {
		return err
	}
	var errs []string
	packages.Visit(pkgs, nil, func(p *packages.Package) {
		for _, e := range p.Errors {
			errs = append(errs, e.Error())
		}
	})
	if len(errs) > 0 {
		return fmt.Errorf("package load errors:\n%s", strings.Join(errs, "\n"))
	}
	e.pkgs = pkgs
	prog, _ := ssautil.AllPackages(pkgs, ssa.GlobalDebug|ssa.InstantiateGenerics)
	prog.Build()
	e.prog = prog
	e.fset = prog.Fset
	for _, p := range prog.AllPackages() {
		e.spkgs[p.Pkg.Path()] = p
	}
	if len(pkgs) > 0 && pkgs[0].Module != nil {
		e.modulePath = pkgs[0].Module.Path
	}
	return nil
}

func (e *Engine) pkgByPath(path string) *types.Package {
	if p, ok := e.spkgs[path]; ok {
		return p.Pkg
	}
	return nil
}

// inRepo reports whether a package belongs to the repository under verification.
func (e *Engine) inRepo(p *types.Package) bool {
	if p == nil {
		return false
	}
	return strings.HasPrefix(p.Path(), "tags.cncf.io/container-device-interface")
}

// loadContracts reads contracts_verif.go files next to the code and the external file.
func (e *Engine) loadContracts(externalFile string) error {
	e.contracts = newContractSet()
	var visit func(p *packages.Package)
	seen := map[string]bool{}
	visit = func(p *packages.Package) {
		if seen[p.PkgPath] {
			return
		}
		seen[p.PkgPath] = true
		for _, ip := range p.Imports {
			visit(ip)
		}
	}
	for _, p := range e.pkgs {
		visit(p)
	}
	var paths []string
	for path := range seen {
		paths = append(paths, path)
	}
	sort.Strings(paths)
	byPath := map[string]*packages.Package{}
	packages.Visit(e.pkgs, nil, func(p *packages.Package) { byPath[p.PkgPath] = p })
	for _, path := range paths {
		p := byPath[path]
		if p == nil || !e.inRepo(p.Types) {
			continue
		}
		for _, f := range p.GoFiles {
			if filepath.Base(f) == "contracts_verif.go" {
				if err := e.contracts.loadContractFile(f, path); err != nil {
					return err
				}
			}
		}
	}
	if externalFile != "" {
		if err := e.contracts.loadContractFile(externalFile, ""); err != nil {
			return err
		}
	}
	for _, g := range e.contracts.Guards {
		for _, f := range g.Fields {
			e.guards[g.Pkg+"."+g.Struct+"."+f] = g
		}
	}
	return nil
}

// funcKey is the contract key of an SSA function: F, (*T).M, (T).M, F$1, (*T).M$1.
func funcKey(f *ssa.Function) string {
	name := f.Name()
	if f.Parent() != nil {
		// closure: parentKey + suffix after the parent's name
		pk := funcKey(f.Parent())
		suffix := strings.TrimPrefix(name, f.Parent().Name())
		return pk + suffix
	}
	if f.Signature.Recv() != nil {
		rt := f.Signature.Recv().Type()
		if p, ok := rt.(*types.Pointer); ok {
			return "(*" + typeShort(p.Elem()) + ")." + name
		}
		return "(" + typeShort(rt) + ")." + name
	}
	return name
}

func typeShort(t types.Type) string {
	if n, ok := t.(*types.Named); ok {
		return n.Obj().Name()
	}
	return types.TypeString(t, func(*types.Package) string { return "" })
}

func funcPkgPath(f *ssa.Function) string {
	for f.Parent() != nil {
		f = f.Parent()
	}
	if f.Pkg != nil {
		return f.Pkg.Pkg.Path()
	}
	if f.Signature.Recv() != nil {
		t := f.Signature.Recv().Type()
		if p, ok := t.(*types.Pointer); ok {
			t = p.Elem()
		}
		if n, ok := t.(*types.Named); ok && n.Obj().Pkg() != nil {
			return n.Obj().Pkg().Path()
		}
	}
	if f.Object() != nil && f.Object().Pkg() != nil {
		return f.Object().Pkg().Path()
	}
	return ""
}

// contractFor finds the contract of an SSA function (in-repo or external).
func (e *Engine) contractFor(f *ssa.Function) *Contract {
	pp := funcPkgPath(f)
	key := funcKey(f)
	if c, ok := e.contracts.Funcs[pp+"."+key]; ok {
		return c
	}
	return nil
}

// lookupFunc finds an SSA function by package path and key.
func (e *Engine) lookupFunc(pkgPath, key string) *ssa.Function {
	p := e.spkgs[pkgPath]
	if p == nil {
		return nil
	}
	var found *ssa.Function
	var visit func(f *ssa.Function)
	visit = func(f *ssa.Function) {
		if found != nil {
			return
		}
		if funcKey(f) == key {
			found = f
			return
		}
		for _, af := range f.AnonFuncs {
			visit(af)
		}
	}
	for _, m := range p.Members {
		switch x := m.(type) {
		case *ssa.Function:
			visit(x)
		case *ssa.Type:
			for _, t := range []types.Type{x.Type(), types.NewPointer(x.Type())} {
				ms := e.prog.MethodSets.MethodSet(t)
				for i := 0; i < ms.Len(); i++ {
					if fn := e.prog.MethodValue(ms.At(i)); fn != nil && fn.Synthetic == "" {
						visit(fn)
					}
				}
			}
		}
	}
	return found
}

// allFuncs lists the source functions (and closures) of a package.
func (e *Engine) allFuncs(pkgPath string) []*ssa.Function {
	p := e.spkgs[pkgPath]
	if p == nil {
		return nil
	}
	seen := map[*ssa.Function]bool{}
	var out []*ssa.Function
	var visit func(f *ssa.Function)
	visit = func(f *ssa.Function) {
		if f == nil || seen[f] || f.Synthetic != "" && f.Name() != "init" {
			return
		}
		if f.Blocks == nil {
			return
		}
		seen[f] = true
		out = append(out, f)
		for _, af := range f.AnonFuncs {
			visit(af)
		}
	}
	for _, m := range p.Members {
		switch x := m.(type) {
		case *ssa.Function:
			visit(x)
		case *ssa.Type:
			for _, t := range []types.Type{x.Type(), types.NewPointer(x.Type())} {
				ms := e.prog.MethodSets.MethodSet(t)
				for i := 0; i < ms.Len(); i++ {
					fn := e.prog.MethodValue(ms.At(i))
					if fn != nil && fn.Synthetic == "" && funcPkgPath(fn) == pkgPath {
						visit(fn)
					}
				}
			}
		}
	}
	sort.Slice(out, func(i, j int) bool { return out[i].Pos() < out[j].Pos() })
	return out
}

// ---------- type resolution for contract text ----------

func (e *Engine) resolveType(pkg *types.Package, x ast.Expr) types.Type {
	t := e.resolveTypeOpt(pkg, x)
	if t == nil {
		panic(evalErr{"cannot resolve type " + exprString(x)})
	}
	return t
}

func (e *Engine) resolveTypeOpt(pkg *types.Package, x ast.Expr) types.Type {
	switch t := x.(type) {
	case *ast.Ident:
		if obj := types.Universe.Lookup(t.Name); obj != nil {
			if tn, ok := obj.(*types.TypeName); ok {
				return tn.Type()
			}
		}
		if pkg != nil {
			if obj := pkg.Scope().Lookup(t.Name); obj != nil {
				if tn, ok := obj.(*types.TypeName); ok {
					return tn.Type()
				}
			}
		}
		// a /repo type named from another package's contract (unique name)
		var found types.Type
		for _, sp := range e.spkgs {
			if sp.Pkg == nil || !e.inRepo(sp.Pkg) {
				continue
			}
			if obj := sp.Pkg.Scope().Lookup(t.Name); obj != nil {
				if tn, ok := obj.(*types.TypeName); ok {
					if found != nil && !types.Identical(found, tn.Type()) {
						return nil
					}
					found = tn.Type()
				}
			}
		}
		return found
	case *ast.StarExpr:
		if el := e.resolveTypeOpt(pkg, t.X); el != nil {
			return types.NewPointer(el)
		}
	case *ast.ArrayType:
		if t.Len == nil {
			if el := e.resolveTypeOpt(pkg, t.Elt); el != nil {
				return types.NewSlice(el)
			}
		}
	case *ast.MapType:
		k, v := e.resolveTypeOpt(pkg, t.Key), e.resolveTypeOpt(pkg, t.Value)
		if k != nil && v != nil {
			return types.NewMap(k, v)
		}
	case *ast.SelectorExpr:
		id, ok := t.X.(*ast.Ident)
		if !ok {
			return nil
		}
		if ip := e.importedPkg(pkg, id.Name); ip != nil {
			if obj := ip.Scope().Lookup(t.Sel.Name); obj != nil {
				if tn, ok := obj.(*types.TypeName); ok {
					return tn.Type()
				}
			}
		}
	case *ast.InterfaceType:
		return types.NewInterfaceType(nil, nil)
	case *ast.StructType:
		if t.Fields == nil || len(t.Fields.List) == 0 {
			return types.NewStruct(nil, nil)
		}
	}
	return nil
}

// importedPkg resolves a package qualifier as it is used in the files of pkg
// (import name or alias), falling back to any loaded package with that name.
func (e *Engine) importedPkg(pkg *types.Package, name string) *types.Package {
	var found *types.Package
	packages.Visit(e.pkgs, nil, func(p *packages.Package) {
		if found != nil || pkg == nil || p.Types != pkg {
			return
		}
		for _, f := range p.Syntax {
			for _, is := range f.Imports {
				path := strings.Trim(is.Path.Value, `"`)
				ip := p.Imports[path]
				if ip == nil {
					continue
				}
				if is.Name != nil {
					if is.Name.Name == name {
						found = ip.Types
						return
					}
				} else if ip.Types.Name() == name {
					found = ip.Types
					return
				}
			}
		}
	})
	if found != nil {
		return found
	}
	// fall back: any loaded package with that name (repo packages first)
	var cands []*types.Package
	for _, sp := range e.prog.AllPackages() {
		if sp.Pkg.Name() == name {
			cands = append(cands, sp.Pkg)
		}
	}
	sort.Slice(cands, func(i, j int) bool {
		ri, rj := e.inRepo(cands[i]), e.inRepo(cands[j])
		if ri != rj {
			return ri
		}
		return cands[i].Path() < cands[j].Path()
	})
	if len(cands) > 0 {
		return cands[0]
	}
	return nil
}

func (e *Engine) lookupGlobal(pkg *types.Package, qual, name string) *globalInfo {
	ip := e.importedPkg(pkg, qual)
	if ip == nil {
		return nil
	}
	sp := e.spkgs[ip.Path()]
	if sp == nil {
		return nil
	}
	if g, ok := sp.Members[name].(*ssa.Global); ok {
		return &globalInfo{g}
	}
	return nil
}

// deterministicByName finds a contract flagged `deterministic` by function name, looking in pkg first.
func (e *Engine) deterministicByName(pkg *types.Package, name string) *Contract {
	if pkg != nil {
		if c, ok := e.contracts.Funcs[pkg.Path()+"."+name]; ok && c.Deterministic {
			return c
		}
	}
	var found *Contract
	for k, c := range e.contracts.Funcs {
		if c.Deterministic && strings.HasSuffix(k, "."+name) {
			if found != nil {
				return nil
			}
			found = c
		}
	}
	return found
}

// contractFunc finds the SSA function a contract is about (in-repo or external).
func (e *Engine) contractFunc(c *Contract) *ssa.Function {
	if !c.Extern {
		return e.lookupFunc(c.Pkg, c.Key)
	}
	i := strings.LastIndex(c.Key, ".")
	if i < 0 || strings.HasPrefix(c.Key, "(") {
		return nil
	}
	pp, name := c.Key[:i], c.Key[i+1:]
	if p, ok := e.spkgs[pp]; ok {
		return p.Func(name)
	}
	for path, p := range e.spkgs {
		if strings.HasSuffix(path, "/"+pp) {
			return p.Func(name)
		}
	}
	return nil
}

// notePkg records which package a heap component belongs to: the package of the (innermost) named type.
// noteRefKind records whether the values of a heap component are references ("ref"), slices ("slice") or
// neither (""), with "/elem" for element components (two-level arrays).
func (e *Engine) noteRefKind(comp string, t types.Type, elem bool) {
	if e.compRef == nil {
		e.compRef = map[string]string{}
	}
	if _, ok := e.compRef[comp]; ok {
		return
	}
	k := ""
	switch t.Underlying().(type) {
	case *types.Pointer, *types.Map, *types.Chan:
		k = "ref"
	case *types.Slice:
		k = "slice"
	}
	if k != "" && elem {
		k += "/elem"
	}
	e.compRef[comp] = k
}

func (e *Engine) notePkg(comp string, t types.Type) {
	if e.compPkg == nil {
		e.compPkg = map[string]string{}
	}
	if _, ok := e.compPkg[comp]; ok {
		return
	}
	e.compPkg[comp] = corePkg(t)
}

func corePkg(t types.Type) string {
	for i := 0; i < 6; i++ {
		switch x := types.Unalias(t).(type) {
		case *types.Named:
			if x.Obj().Pkg() != nil {
				return x.Obj().Pkg().Path()
			}
			return ""
		case *types.Pointer:
			t = x.Elem()
		case *types.Slice:
			t = x.Elem()
		case *types.Array:
			t = x.Elem()
		case *types.Map:
			if p := corePkg(x.Elem()); p != "" {
				return p
			}
			t = x.Key()
		default:
			return ""
		}
	}
	return ""
}

// pkgMatches: does a component's package match one of the `preserves` entries (path suffix match)?
func pkgMatches(pkg string, pats []string) bool {
	if pkg == "" {
		// components of no package: cells, elements and maps of basic types ("basic-data")
		for _, p := range pats {
			if p == "basic-data" {
				return true
			}
		}
		return false
	}
	for _, p := range pats {
		if pkg == p || strings.HasSuffix(pkg, "/"+p) {
			return true
		}
	}
	return false
}
