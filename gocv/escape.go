package main

import (
	"go/token"
	"go/types"

	"golang.org/x/tools/go/ssa"
)

// Path-sensitive ownership of local allocations.
//
// An object allocated by this function (ssa.Alloc: a local variable whose address is taken, or new(T)) cannot
// be read or written by any other code until its address has been handed out. On every path the executor
// records which allocations have leaked so far: an address (or the address of a field or element) that is
// passed to a call, captured by a closure, converted to an interface, merged by a phi, returned, or stored
// anywhere but into another allocation that has not leaked itself. An allocation stored into a still private
// one is contained in it and leaks with it; loading a value that carries pointers out of a private allocation
// leaks what it contains (the loaded pointers are not followed). A call with unknown effect (whole-heap havoc)
// leaves the content of the allocations that have not leaked at that point as it is.
//
// Loops: an allocation made before a loop whose body may leak it is taken as leaked from the loop head on.

func allocRoot(v ssa.Value) *ssa.Alloc {
	for i := 0; i < 8; i++ {
		switch x := v.(type) {
		case *ssa.Alloc:
			return x
		case *ssa.FieldAddr:
			v = x.X
		case *ssa.IndexAddr:
			v = x.X
		default:
			return nil
		}
	}
	return nil
}

func typeHasPointers(t types.Type) bool {
	switch x := t.Underlying().(type) {
	case *types.Pointer, *types.Slice, *types.Map, *types.Chan, *types.Signature, *types.Interface:
		return true
	case *types.Struct:
		for i := 0; i < x.NumFields(); i++ {
			if typeHasPointers(x.Field(i).Type()) {
				return true
			}
		}
	case *types.Array:
		return typeHasPointers(x.Elem())
	}
	return false
}

// containedRef: the address of inner was stored into field `field` of the container (-1: somewhere in it).
type containedRef struct {
	field int
	inner *ssa.Alloc
}

func (st *State) leak(a *ssa.Alloc) {
	if st.leaked == nil {
		st.leaked = map[*ssa.Alloc]bool{}
	}
	if st.leaked[a] {
		return
	}
	st.leaked[a] = true
	for _, c := range st.contains[a] {
		st.leak(c.inner)
	}
}

// leakContained: a value carrying pointers was loaded from field `field` of a (-1: from all of it).
func (st *State) leakContained(a *ssa.Alloc, field int) {
	for _, c := range st.contains[a] {
		if field < 0 || c.field < 0 || c.field == field {
			st.leak(c.inner)
		}
	}
}

// directField: v is the address of field i of the allocation itself.
func directField(v ssa.Value) int {
	if fa, ok := v.(*ssa.FieldAddr); ok {
		if _, ok := fa.X.(*ssa.Alloc); ok {
			return fa.Field
		}
	}
	return -1
}

// noteLeaks is called before an instruction is executed.
func (u *Unit) noteLeaks(st *State, ins ssa.Instruction) {
	leakStatic(ins, func(a *ssa.Alloc) { st.leak(a) }, func(a *ssa.Alloc, f int) { st.leakContained(a, f) },
		func(container, inner *ssa.Alloc, field int) bool {
			if st.leaked[container] {
				return false
			}
			if st.contains == nil {
				st.contains = map[*ssa.Alloc][]containedRef{}
			}
			st.contains[container] = append(append([]containedRef(nil), st.contains[container]...), containedRef{field, inner})
			return true
		})
}

// leakStatic applies the leak rules to one instruction. contain(container, inner) is asked whether storing
// the address of inner into container keeps it private (false: it leaks).
func leakStatic(ins ssa.Instruction, leak func(*ssa.Alloc), leakContained func(*ssa.Alloc, int), contain func(container, inner *ssa.Alloc, field int) bool) {
	switch x := ins.(type) {
	case *ssa.DebugRef, *ssa.FieldAddr, *ssa.IndexAddr, *ssa.Alloc:
		return
	case *ssa.UnOp:
		if x.Op == token.MUL {
			if r := allocRoot(x.X); r != nil && typeHasPointers(x.Type()) {
				leakContained(r, directField(x.X))
			}
			return
		}
	case *ssa.BinOp:
		if x.Op == token.EQL || x.Op == token.NEQ {
			return
		}
	case *ssa.Store:
		if r := allocRoot(x.Val); r != nil {
			if tgt := allocRoot(x.Addr); tgt != nil && tgt != r && contain(tgt, r, directField(x.Addr)) {
				return
			}
			leak(r)
		}
		return
	case *ssa.If, *ssa.Jump:
		return
	}
	var ops []*ssa.Value
	for _, op := range ins.Operands(ops) {
		if op == nil || *op == nil {
			continue
		}
		if r := allocRoot(*op); r != nil {
			leak(r)
		}
	}
}

// leaksInLoop marks at a loop head the allocations that the loop body may leak (path-insensitively).
func (u *Unit) leaksInLoop(st *State, blocks []*ssa.BasicBlock) {
	in := map[*ssa.BasicBlock]bool{}
	for _, b := range blocks {
		in[b] = true
	}
	// an allocation made inside the loop is a new object in every iteration
	outer := func(a *ssa.Alloc) bool { return !in[a.Block()] }
	for _, b := range blocks {
		for _, ins := range b.Instrs {
			leakStatic(ins, func(a *ssa.Alloc) {
				if outer(a) {
					st.leak(a)
				}
			}, func(a *ssa.Alloc, f int) {
				if outer(a) {
					st.leakContained(a, f)
				}
			}, func(container, inner *ssa.Alloc, field int) bool { return !outer(inner) })
		}
	}
}

type savedAlloc struct {
	al  *ssa.Alloc
	ref Term
	val Term
	// a map made by this function and used only as a map (see privateMap): domain, values and cardinality
	mk             *ssa.MakeMap
	dom, mval, crd Term
}

// privateMap: the map made by mk is only ever updated, looked up, ranged over, measured or deleted from by this
// function itself - it is never stored, passed, returned, captured or merged into a phi - so no other code can
// hold a reference to it, and a call with unknown effect cannot change its content.
func privateMap(mk *ssa.MakeMap) bool {
	refs := mk.Referrers()
	if refs == nil {
		return false
	}
	for _, r := range *refs {
		switch x := r.(type) {
		case *ssa.DebugRef:
		case *ssa.MapUpdate:
			if x.Map != ssa.Value(mk) || x.Key == ssa.Value(mk) || x.Value == ssa.Value(mk) {
				return false
			}
		case *ssa.Lookup:
			if x.X != ssa.Value(mk) || x.Index == ssa.Value(mk) {
				return false
			}
		case *ssa.Range:
		case *ssa.Call:
			b, ok := x.Call.Value.(*ssa.Builtin)
			if !ok || b.Name() != "len" && !(b.Name() == "delete" && x.Call.Args[0] == ssa.Value(mk) && x.Call.Args[1] != ssa.Value(mk)) {
				return false
			}
		default:
			return false
		}
	}
	return true
}

// saveOwned records the content of the allocations that have not leaked on this path.
func (u *Unit) saveOwned(st *State) []savedAlloc {
	var out []savedAlloc
	for _, b := range u.fn.Blocks {
		for _, ins := range b.Instrs {
			if mk, ok := ins.(*ssa.MakeMap); ok && privateMap(mk) {
				if ref, ok := st.vals[mk]; ok {
					mc := u.mapComps(mk.Type())
					out = append(out, savedAlloc{mk: mk, ref: ref, dom: u.define(st, "ownedDom", u.mapDom(st, mc, ref)),
						mval: u.define(st, "ownedVal", u.mapVal(st, mc, ref)), crd: u.define(st, "ownedCard", u.mapCard(st, mc, ref))})
				}
				continue
			}
			al, ok := ins.(*ssa.Alloc)
			if !ok || st.leaked[al] {
				continue
			}
			ref, ok := st.vals[al]
			if !ok {
				continue
			}
			elem := al.Type().(*types.Pointer).Elem()
			switch elem.Underlying().(type) {
			case *types.Struct:
				out = append(out, savedAlloc{al: al, ref: ref, val: u.define(st, "owned", u.gather(st, elem, ref))})
			case *types.Array:
				// not kept
			default:
				if l, ok := st.locs[al]; ok {
					out = append(out, savedAlloc{al: al, ref: ref, val: u.define(st, "owned", u.loadLoc(st, l))})
				}
			}
		}
	}
	return out
}

func (u *Unit) restoreOwned(st *State, saved []savedAlloc) {
	for _, s := range saved {
		if s.mk != nil {
			mc := u.mapComps(s.mk.Type())
			st.assume(and(eq(u.mapDom(st, mc, s.ref), s.dom), eq(u.mapVal(st, mc, s.ref), s.mval), eq(u.mapCard(st, mc, s.ref), s.crd)))
			continue
		}
		elem := s.al.Type().(*types.Pointer).Elem()
		if _, ok := elem.Underlying().(*types.Struct); ok {
			st.assume(eq(u.gather(st, elem, s.ref), s.val))
		} else if l, ok := st.locs[s.al]; ok {
			st.assume(eq(u.loadLoc(st, l), s.val))
		}
	}
	if len(saved) > 0 {
		u.note("local allocations whose address has not been handed out on the path, and maps made and used only by the function itself, keep their content across calls with unknown effect")
	}
}
