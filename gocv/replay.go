package main

import (
	"encoding/json"
	"fmt"
	"go/ast"
	"go/token"
	"go/types"
	"os"
	"os/exec"
	"path/filepath"
	"regexp"
	"strconv"
	"strings"
	"time"
)

// ---------- model extraction ----------

var valueRe = regexp.MustCompile(`\(\s*(\([^()]*(?:\([^()]*\)[^()]*)*\)|[^\s()]+)\s+(\(-\s*\d+\)|-?\d+|true|false)\s*\)`)

func parseValues(out string) map[string]string {
	m := map[string]string{}
	for _, mm := range valueRe.FindAllStringSubmatch(out, -1) {
		v := mm[2]
		if strings.HasPrefix(v, "(-") {
			v = "-" + strings.TrimSpace(strings.Trim(v[2:], "() "))
		}
		m[strings.Join(strings.Fields(mm[1]), " ")] = v
	}
	return m
}

func (o *Obligation) queryValues(extra []string, terms []string, timeoutS int) (map[string]string, string) {
	if len(terms) == 0 {
		return map[string]string{}, "sat"
	}
	text := o.smt(true)
	text = strings.TrimSuffix(strings.TrimSpace(text), "(check-sat)")
	for _, e := range extra {
		text += e + "\n"
	}
	text += "(check-sat)\n(get-value (" + strings.Join(terms, " ") + "))\n"
	f, err := os.CreateTemp("", "gocv-model-*.smt2")
	if err != nil {
		return nil, "error"
	}
	defer os.Remove(f.Name())
	_, _ = f.WriteString(text)
	f.Close()
	for _, s := range solvers[:2] {
		r, out, _ := runSolver(s, f.Name(), timeoutS)
		if r == "sat" {
			return parseValues(out), "sat"
		}
	}
	return nil, "unknown"
}

// modelArgs extracts concrete Go literals for the scalar and string parameters and logical variables.
func (o *Obligation) modelArgs() (map[string]string, bool, string) {
	u := o.unit
	type sv struct {
		name string
		term Term
	}
	var scal, strs []sv
	add := func(name string, t Term) bool {
		switch t.Sort {
		case SInt, SBool:
			if t.T != nil {
				switch t.T.Underlying().(type) {
				case *types.Basic:
				default:
					return false
				}
			}
			scal = append(scal, sv{name, t})
		case SStr:
			strs = append(strs, sv{name, t})
		default:
			return false
		}
		return true
	}
	for _, p := range u.fn.Params {
		if !add("@"+p.Name(), u.params["@"+p.Name()]) {
			return nil, false, "parameter " + p.Name() + " of type " + p.Type().String() + " has no scalar model"
		}
	}
	for n, t := range u.logical {
		add(n, t)
	}
	var terms []string
	for _, s := range scal {
		terms = append(terms, s.term.S)
	}
	for _, s := range strs {
		terms = append(terms, "(slen "+s.term.S+")")
	}
	vals, res := o.queryValues(nil, terms, 10)
	if res != "sat" {
		return nil, false, "no model on re-query"
	}
	out := map[string]string{}
	var pins, byteTerms []string
	for _, s := range scal {
		v, ok := vals[s.term.S]
		if !ok {
			return nil, false, "no value for " + s.name
		}
		out[s.name] = v
		pins = append(pins, fmt.Sprintf("(assert (= %s %s))", s.term.S, smtNum(v)))
	}
	lens := map[string]int{}
	for _, s := range strs {
		v, ok := vals["(slen "+s.term.S+")"]
		if !ok {
			return nil, false, "no length for " + s.name
		}
		n, _ := strconv.Atoi(v)
		if n > 4096 {
			return nil, false, fmt.Sprintf("model wants a string of %d bytes", n)
		}
		lens[s.name] = n
		pins = append(pins, fmt.Sprintf("(assert (= (slen %s) %d))", s.term.S, n))
		for i := 0; i < n; i++ {
			byteTerms = append(byteTerms, fmt.Sprintf("(sat %s %d)", s.term.S, i))
		}
	}
	bvals, res := o.queryValues(pins, byteTerms, 10)
	if res != "sat" {
		return nil, false, "no model for string bytes"
	}
	for _, s := range strs {
		var b []byte
		for i := 0; i < lens[s.name]; i++ {
			v := bvals[fmt.Sprintf("(sat %s %d)", s.term.S, i)]
			x, _ := strconv.Atoi(v)
			b = append(b, byte(x))
		}
		out[s.name] = strconv.Quote(string(b))
	}
	return out, true, ""
}

func smtNum(v string) string {
	if strings.HasPrefix(v, "-") {
		return "(- " + v[1:] + ")"
	}
	return v
}

// ---------- contract clause -> Go ----------

type goGen struct {
	eng   *Engine
	preds map[string]string // emitted helper functions
	order []string
	err   error
}

func (g *goGen) fail(format string, a ...any) string {
	if g.err == nil {
		g.err = fmt.Errorf(format, a...)
	}
	return "false"
}

// expr compiles a contract expression; env maps names to Go expressions and kinds ("int","string","bool","err").
func (g *goGen) expr(e ast.Expr, env map[string][2]string) (string, string) {
	switch x := e.(type) {
	case *ast.ParenExpr:
		s, k := g.expr(x.X, env)
		return "(" + s + ")", k
	case *ast.BasicLit:
		switch x.Kind {
		case token.INT:
			return x.Value, "int"
		case token.CHAR:
			return "int(" + x.Value + ")", "int"
		case token.STRING:
			return x.Value, "string"
		}
	case *ast.Ident:
		switch x.Name {
		case "true", "false":
			return x.Name, "bool"
		case "nil":
			return "nil", "nil"
		}
		if v, ok := env[x.Name]; ok {
			return v[0], v[1]
		}
		return g.fail("name %s not available in replay", x.Name), "bool"
	case *ast.UnaryExpr:
		s, k := g.expr(x.X, env)
		if x.Op == token.NOT {
			return "!(" + s + ")", "bool"
		}
		if x.Op == token.SUB {
			return "-(" + s + ")", k
		}
	case *ast.BinaryExpr:
		a, ka := g.expr(x.X, env)
		b, kb := g.expr(x.Y, env)
		switch x.Op {
		case token.LAND, token.LOR, token.EQL, token.NEQ, token.LSS, token.LEQ, token.GTR, token.GEQ:
			if (ka == "err" && kb == "nil") || (ka == "nil" && kb == "err") {
				return "(" + a + " " + x.Op.String() + " " + b + ")", "bool"
			}
			return "(" + a + " " + x.Op.String() + " " + b + ")", "bool"
		case token.ADD, token.SUB, token.MUL:
			return "(" + a + " " + x.Op.String() + " " + b + ")", ka
		}
	case *ast.IndexExpr:
		s, k := g.expr(x.X, env)
		i, _ := g.expr(x.Index, env)
		if k == "string" {
			return "gocvAt(" + s + ", " + i + ")", "int"
		}
		return g.fail("index of %s in replay", k), "bool"
	case *ast.SliceExpr:
		s, k := g.expr(x.X, env)
		if k != "string" {
			return g.fail("slice of %s in replay", k), "bool"
		}
		lo, hi := "0", "len("+s+")"
		if x.Low != nil {
			lo, _ = g.expr(x.Low, env)
		}
		if x.High != nil {
			hi, _ = g.expr(x.High, env)
		}
		return "gocvSub(" + s + ", " + lo + ", " + hi + ")", "string"
	case *ast.CallExpr:
		fn, ok := x.Fun.(*ast.Ident)
		if !ok {
			return g.fail("call in replay"), "bool"
		}
		switch fn.Name {
		case "len":
			s, _ := g.expr(x.Args[0], env)
			return "len(" + s + ")", "int"
		case "implies":
			a, _ := g.expr(x.Args[0], env)
			b, _ := g.expr(x.Args[1], env)
			return "(!(" + a + ") || (" + b + "))", "bool"
		case "iff":
			a, _ := g.expr(x.Args[0], env)
			b, _ := g.expr(x.Args[1], env)
			return "((" + a + ") == (" + b + "))", "bool"
		case "forall", "exists":
			if len(x.Args) != 3 {
				return g.fail("typed quantifier in replay"), "bool"
			}
			id := x.Args[0].(*ast.Ident).Name
			lo, hi, ok := g.bounds(id, x.Args[1], env)
			if !ok {
				return g.fail("quantifier over %s is not range-guarded", id), "bool"
			}
			env2 := map[string][2]string{}
			for k, v := range env {
				env2[k] = v
			}
			env2[id] = [2]string{id, "int"}
			guard, _ := g.expr(x.Args[1], env2)
			body, _ := g.expr(x.Args[2], env2)
			if fn.Name == "forall" {
				return fmt.Sprintf("func() bool { for %s := %s; %s <= %s; %s++ { if (%s) && !(%s) { return false } }; return true }()", id, lo, id, hi, id, guard, body), "bool"
			}
			return fmt.Sprintf("func() bool { for %s := %s; %s <= %s; %s++ { if (%s) && (%s) { return true } }; return false }()", id, lo, id, hi, id, guard, body), "bool"
		}
		if pd, ok := g.eng.contracts.Preds[fn.Name]; ok && !pd.Abstract {
			name := g.pred(pd)
			var args []string
			for _, a := range x.Args {
				s, _ := g.expr(a, env)
				args = append(args, s)
			}
			return name + "(" + strings.Join(args, ", ") + ")", "bool"
		}
		return g.fail("spec function %s in replay", fn.Name), "bool"
	}
	return g.fail("expression %T in replay", e), "bool"
}

// bounds extracts integer bounds lo <= id <= hi from a guard conjunction.
func (g *goGen) bounds(id string, guard ast.Expr, env map[string][2]string) (string, string, bool) {
	var los, his []string
	var walk func(e ast.Expr)
	walk = func(e ast.Expr) {
		switch x := e.(type) {
		case *ast.ParenExpr:
			walk(x.X)
		case *ast.BinaryExpr:
			if x.Op == token.LAND {
				walk(x.X)
				walk(x.Y)
				return
			}
			l, lIsID := x.X.(*ast.Ident)
			r, rIsID := x.Y.(*ast.Ident)
			switch {
			case rIsID && r.Name == id && !mentions(x.X, id):
				s, _ := g.expr(x.X, env)
				switch x.Op {
				case token.LEQ:
					los = append(los, s)
				case token.LSS:
					los = append(los, "("+s+")+1")
				case token.GEQ:
					his = append(his, s)
				case token.GTR:
					his = append(his, "("+s+")-1")
				}
			case lIsID && l.Name == id && !mentions(x.Y, id):
				s, _ := g.expr(x.Y, env)
				switch x.Op {
				case token.LEQ:
					his = append(his, s)
				case token.LSS:
					his = append(his, "("+s+")-1")
				case token.GEQ:
					los = append(los, s)
				case token.GTR:
					los = append(los, "("+s+")+1")
				}
			}
		}
	}
	walk(guard)
	if len(los) == 0 || len(his) == 0 {
		return "", "", false
	}
	return "gocvMax(" + strings.Join(los, ", ") + ")", "gocvMin(" + strings.Join(his, ", ") + ")", true
}

func mentions(e ast.Expr, id string) bool {
	found := false
	ast.Inspect(e, func(n ast.Node) bool {
		if i, ok := n.(*ast.Ident); ok && i.Name == id {
			found = true
		}
		return true
	})
	return found
}

func (g *goGen) pred(pd *PredDef) string {
	name := "gocvPred_" + pd.Name
	if _, ok := g.preds[name]; ok {
		return name
	}
	g.preds[name] = "" // reserve (no recursion)
	env := map[string][2]string{}
	var ps []string
	for _, p := range pd.Params {
		k := "int"
		if id, ok := p.Type.(*ast.Ident); ok && id.Name == "string" {
			k = "string"
		} else if ok && id.Name == "bool" {
			k = "bool"
		}
		env[p.Name] = [2]string{p.Name, k}
		ps = append(ps, p.Name+" "+k)
	}
	body, _ := g.expr(pd.Body, env)
	g.preds[name] = fmt.Sprintf("func %s(%s) bool { return %s }\n", name, strings.Join(ps, ", "), body)
	g.order = append(g.order, name)
	return name
}

const replayHelpers = `
func gocvAt(s string, i int) int { if i < 0 || i >= len(s) { return -1 }; return int(s[i]) }
func gocvSub(s string, lo, hi int) string { if lo < 0 || hi > len(s) || lo > hi { return "\x00<out of range>" }; return s[lo:hi] }
func gocvMax(xs ...int) int { m := xs[0]; for _, x := range xs { if x > m { m = x } }; return m }
func gocvMin(xs ...int) int { m := xs[0]; for _, x := range xs { if x < m { m = x } }; return m }
`

// ---------- running a replay ----------

func goKind(t types.Type) string {
	switch b := t.Underlying().(type) {
	case *types.Basic:
		switch {
		case b.Info()&types.IsString != 0:
			return "string"
		case b.Info()&types.IsBoolean != 0:
			return "bool"
		case b.Info()&types.IsInteger != 0:
			return "int"
		}
	case *types.Interface:
		return "err"
	}
	return ""
}

func (r *Run) tryReplay(o *Obligation, rf *replayFile) {
	u := o.unit
	if u == nil || u.fn == nil || u.fn.Parent() != nil {
		rf.Observed = "no replay harness for closures"
		return
	}
	args, ok, why := o.modelArgs()
	if !ok {
		rf.Observed = "model not concretised: " + why
		return
	}
	rf.Model = args
	fn := u.fn
	if fn.Signature.Recv() != nil {
		rf.Observed = "no generic replay harness for methods"
		return
	}
	pkg := fn.Pkg.Pkg
	g := &goGen{eng: u.eng, preds: map[string]string{}}
	var call []string
	env := map[string][2]string{}
	var decl strings.Builder
	for i, p := range fn.Params {
		k := goKind(p.Type())
		if k == "" || k == "err" {
			rf.Observed = "parameter type not replayable: " + p.Type().String()
			return
		}
		v := args["@"+p.Name()]
		gv := fmt.Sprintf("a%d", i)
		decl.WriteString(fmt.Sprintf("\tvar %s %s = %s\n", gv, types.TypeString(p.Type(), func(*types.Package) string { return "" }), v))
		call = append(call, gv)
		if u.contract != nil && i < len(u.contract.Params) {
			conv := gv
			if k == "int" {
				conv = "int(" + gv + ")"
			}
			env[u.contract.Params[i]] = [2]string{conv, k}
		}
	}
	for n, t := range u.logical {
		k := goKind(t.T)
		gv := "lv_" + n
		decl.WriteString(fmt.Sprintf("\tvar %s %s = %s\n\t_ = %s\n", gv, k, args[n], gv))
		env[n] = [2]string{gv, k}
	}
	var resNames []string
	sig := fn.Signature.Results()
	for i := 0; i < sig.Len(); i++ {
		rn := fmt.Sprintf("r%d", i)
		resNames = append(resNames, rn)
		if u.contract != nil && i < len(u.contract.Results) {
			k := goKind(sig.At(i).Type())
			conv := rn
			if k == "int" {
				conv = "int(" + rn + ")"
			}
			env[u.contract.Results[i]] = [2]string{conv, k}
		}
	}
	check := ""
	if o.Kind == "post" || o.Kind == "assert" {
		var clause ast.Expr
		if u.contract != nil {
			for _, e := range u.contract.Ensures {
				if e.Text == o.Clause {
					clause = e.Expr
				}
			}
		}
		if clause == nil {
			rf.Observed = "clause not found for replay"
			return
		}
		s, _ := g.expr(clause, env)
		if g.err != nil {
			rf.Observed = "clause not executable: " + g.err.Error()
			return
		}
		check = s
	}
	var src strings.Builder
	src.WriteString("package " + pkg.Name() + "\n\nimport (\n\t\"fmt\"\n\t\"testing\"\n)\n")
	src.WriteString(replayHelpers)
	for _, n := range g.order {
		src.WriteString(g.preds[n])
	}
	src.WriteString("\nfunc TestGocvReplay(t *testing.T) {\n")
	src.WriteString(decl.String())
	src.WriteString("\tdefer func() {\n\t\tif r := recover(); r != nil {\n\t\t\tfmt.Printf(\"GOCV-PANIC: %v\\n\", r)\n\t\t}\n\t}()\n")
	if len(resNames) > 0 {
		src.WriteString("\t" + strings.Join(resNames, ", ") + " := " + fn.Name() + "(" + strings.Join(call, ", ") + ")\n")
		for _, rn := range resNames {
			src.WriteString(fmt.Sprintf("\tfmt.Printf(\"GOCV-RESULT %s: %%#v\\n\", %s)\n", rn, rn))
		}
	} else {
		src.WriteString("\t" + fn.Name() + "(" + strings.Join(call, ", ") + ")\n")
	}
	if check != "" {
		src.WriteString("\tif !(" + check + ") {\n\t\tfmt.Println(\"GOCV-CLAUSE-FALSE\")\n\t} else {\n\t\tfmt.Println(\"GOCV-CLAUSE-TRUE\")\n\t}\n")
	}
	src.WriteString("\tfmt.Println(\"GOCV-DONE\")\n}\n")
	rf.GoTest = src.String()
	rf.Package = pkg.Path()
	out, err := runOverlayTest(r.repoFor(u.eng), pkgDir(u), rf.GoTest)
	rf.Observed = truncate(out, 4000)
	if err != nil && !strings.Contains(out, "GOCV-") {
		rf.Observed = "replay did not run: " + err.Error() + "\n" + rf.Observed
		return
	}
	switch o.Kind {
	case "safety":
		if strings.Contains(out, "GOCV-PANIC") {
			rf.Reproduced, rf.Class = true, "counterexample"
		}
	case "post", "assert":
		if strings.Contains(out, "GOCV-CLAUSE-FALSE") || strings.Contains(out, "GOCV-PANIC") {
			rf.Reproduced, rf.Class = true, "counterexample"
		}
	}
}

func (r *Run) repoFor(e *Engine) string { return e.repo }

func pkgDir(u *Unit) string {
	pos := u.eng.fset.Position(u.fn.Pos())
	return filepath.Dir(pos.Filename)
}

// runOverlayTest injects an in-package test through go test -overlay (nothing is written to the repository).
func runOverlayTest(moduleDir, dir, src string) (string, error) {
	tmp, err := os.MkdirTemp("", "gocv-replay-")
	if err != nil {
		return "", err
	}
	defer os.RemoveAll(tmp)
	testFile := filepath.Join(tmp, "zz_gocv_replay_test.go")
	if err := os.WriteFile(testFile, []byte(src), 0o644); err != nil {
		return "", err
	}
	ov := map[string]any{"Replace": map[string]string{filepath.Join(dir, "zz_gocv_replay_test.go"): testFile}}
	data, _ := json.Marshal(ov)
	ovFile := filepath.Join(tmp, "overlay.json")
	_ = os.WriteFile(ovFile, data, 0o644)
	cmd := exec.Command("go", "test", "-overlay", ovFile, "-vet=off", "-count=1", "-timeout", "60s", "-run", "^TestGocvReplay$", "-v", ".")
	cmd.Dir = dir
	cmd.Env = append(os.Environ(), "GOFLAGS=-mod=mod", "GOPROXY=off", "GOSUMDB=off", "GOTOOLCHAIN=local")
	done := make(chan struct{})
	var out []byte
	var rerr error
	go func() {
		out, rerr = cmd.CombinedOutput()
		close(done)
	}()
	select {
	case <-done:
	case <-time.After(120 * time.Second):
		_ = cmd.Process.Kill()
		<-done
	}
	_ = moduleDir
	return string(out), rerr
}
