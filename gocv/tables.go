package main

import (
	"fmt"
	"go/constant"
	"go/token"
	"go/types"
	"sort"
	"strings"

	"golang.org/x/mod/semver"
	"golang.org/x/tools/go/ssa"
)

// ---------- package-level constant tables ----------

type tableEntry struct {
	key ssa.Value
	val ssa.Value
}

type tableFact struct {
	g       *ssa.Global
	entries []tableEntry
	reason  string // non-empty: not a constant table
}

// tableFor analyses a package-level map variable: its content is taken from the package
// initialiser, provided nothing else in the repository can change it.
func (e *Engine) tableFor(g *ssa.Global) *tableFact {
	if e.tables == nil {
		e.tables = map[*ssa.Global]*tableFact{}
	}
	if t, ok := e.tables[g]; ok {
		return t
	}
	t := &tableFact{g: g}
	e.tables[g] = t
	mt, ok := g.Type().(*types.Pointer).Elem().Underlying().(*types.Map)
	if !ok {
		t.reason = "not a map"
		return t
	}
	_ = mt
	init := g.Pkg.Func("init")
	if init == nil {
		t.reason = "no initialiser"
		return t
	}
	var mk ssa.Value
	for _, b := range init.Blocks {
		for _, ins := range b.Instrs {
			if st, ok := ins.(*ssa.Store); ok && st.Addr == ssa.Value(g) {
				if mk != nil {
					t.reason = "stored more than once in init"
					return t
				}
				mk = st.Val
			}
		}
	}
	if _, ok := mk.(*ssa.MakeMap); !ok {
		t.reason = "initial value is not a map literal"
		return t
	}
	for _, b := range init.Blocks {
		for _, ins := range b.Instrs {
			if mu, ok := ins.(*ssa.MapUpdate); ok && mu.Map == mk {
				if _, isConst := mu.Key.(*ssa.Const); !isConst {
					t.reason = "non-constant key in initialiser"
					return t
				}
				t.entries = append(t.entries, tableEntry{mu.Key, mu.Value})
			}
		}
	}
	// nothing else may write the variable or update the map it holds
	for _, sp := range e.prog.AllPackages() {
		if !e.inRepo(sp.Pkg) {
			continue
		}
		for _, fn := range e.allFuncs(sp.Pkg.Path()) {
			for _, b := range fn.Blocks {
				for _, ins := range b.Instrs {
					switch x := ins.(type) {
					case *ssa.Store:
						if x.Addr == ssa.Value(g) && fn != init {
							t.reason = "assigned in " + fn.String()
							return t
						}
					case *ssa.UnOp:
						if x.Op == token.MUL && x.X == ssa.Value(g) && fn != init {
							if why := e.mapEscapes(x, 0); why != "" {
								t.reason = why + " in " + fn.String()
								return t
							}
						}
					}
				}
			}
		}
	}
	return t
}

// mapEscapes reports how a loaded map value could be modified (empty string: it cannot).
func (e *Engine) mapEscapes(v ssa.Value, depth int) string {
	refs := v.Referrers()
	if refs == nil {
		return ""
	}
	for _, r := range *refs {
		switch x := r.(type) {
		case *ssa.Lookup, *ssa.Range, *ssa.DebugRef:
		case *ssa.MapUpdate:
			if x.Map == v {
				return "map is updated"
			}
			return "map is stored into another map"
		case *ssa.Call:
			if b, ok := x.Call.Value.(*ssa.Builtin); ok {
				if b.Name() == "len" {
					continue
				}
				return "map passed to builtin " + b.Name()
			}
			callee := x.Call.StaticCallee()
			if callee == nil || depth > 1 {
				return "map passed to an unknown function"
			}
			for i, a := range x.Call.Args {
				if a == v && i < len(callee.Params) {
					if why := e.mapEscapes(callee.Params[i], depth+1); why != "" {
						return why
					}
				}
			}
		case *ssa.ChangeType:
			if why := e.mapEscapes(x, depth); why != "" {
				return why
			}
		default:
			return fmt.Sprintf("map flows into %T", r)
		}
	}
	return ""
}

// assumeTable adds the content of a constant table for the map value m just loaded from g.
func (u *Unit) assumeTable(st *State, g *ssa.Global, m Term) {
	t := u.eng.tableFor(g)
	if t.reason != "" {
		u.note(fmt.Sprintf("%s: package variable %s is not treated as a constant table (%s)", u.key, g.Name(), t.reason))
		return
	}
	mc := u.mapComps(g.Type().(*types.Pointer).Elem())
	dom := u.mapDom(st, mc, m)
	val := u.mapVal(st, mc, m)
	var facts []Term
	facts = append(facts, not(eq(m, intLit(0))))
	var keys []Term
	for _, en := range t.entries {
		k := u.staticVal(en.key)
		keys = append(keys, k)
		facts = append(facts, sel(dom, k, SBool))
		if mc.vs != "S_unit" {
			facts = append(facts, eq(sel(val, k, mc.vs), u.staticVal(en.val)))
		}
	}
	var alts []string
	for _, k := range keys {
		alts = append(alts, fmt.Sprintf("(= k %s)", k.S))
	}
	if len(alts) > 0 {
		facts = append(facts, mk(fmt.Sprintf("(forall ((k %s)) (! (=> (select %s k) (or %s)) :pattern ((select %s k))))", mc.ks, dom.S, strings.Join(alts, " "), dom.S), SBool))
	}
	facts = append(facts, eq(u.mapCard(st, mc, m), intLit(int64(len(keys)))))
	st.assume(and(facts...))
	if st.tableKeys == nil {
		st.tableKeys = map[string][]Term{}
	}
	st.tableKeys[m.S] = keys
	u.note(fmt.Sprintf("package table %s: %d entries taken from the package initialiser (no other writer in the repository)", g.Name(), len(keys)))
	u.semverFacts(t)
}

// semverFacts: the ordering of the released version constants, obtained by executing the real
// golang.org/x/mod/semver.Compare on the constants found in the table (trusted by execution).
func (u *Unit) semverFacts(t *tableFact) {
	var vs []string
	for _, en := range t.entries {
		if c, ok := en.key.(*ssa.Const); ok && c.Value != nil && c.Value.Kind() == constant.String {
			s := constant.StringVal(c.Value)
			if semver.IsValid(s) {
				vs = append(vs, s)
			}
		}
	}
	if len(vs) == 0 {
		return
	}
	sort.Strings(vs)
	u.pre.declFun("uf_semverCmp", "(declare-fun uf_semverCmp (Str Str) Int)")
	var facts []string
	for _, a := range vs {
		for _, b := range vs {
			facts = append(facts, fmt.Sprintf("(= (uf_semverCmp %s %s) %s)", u.strLit(a).S, u.strLit(b).S, intLit(int64(semver.Compare(a, b))).S))
		}
	}
	u.pre.axiomFor("(uf_semverCmp ", "(and "+strings.Join(facts, " ")+")")
	u.usedExternal[fmt.Sprintf("semver.Compare on the %d released version constants: %d-entry table produced by executing golang.org/x/mod/semver", len(vs), len(facts))] = true
}

// ---------- calls through function values ----------

// funcCandidates lists the repository functions whose value can flow into a call of signature sig:
// functions with an identical signature that are used as a value somewhere.
func (e *Engine) funcCandidates(sig *types.Signature) []*ssa.Function {
	if e.addrTaken == nil {
		e.addrTaken = map[*ssa.Function]bool{}
		for _, sp := range e.prog.AllPackages() {
			if !e.inRepo(sp.Pkg) {
				continue
			}
			fns := e.allFuncs(sp.Pkg.Path())
			if init := sp.Func("init"); init != nil {
				fns = append(fns, init)
			}
			for _, fn := range fns {
				for _, b := range fn.Blocks {
					for _, ins := range b.Instrs {
						var ops []*ssa.Value
						ops = ins.Operands(ops)
						for i, op := range ops {
							if op == nil || *op == nil {
								continue
							}
							f, ok := (*op).(*ssa.Function)
							if !ok {
								continue
							}
							if ci, isCall := ins.(ssa.CallInstruction); isCall && i == 0 && ci.Common().Value == ssa.Value(f) {
								continue // direct call
							}
							e.addrTaken[f] = true
						}
					}
				}
			}
		}
	}
	var out []*ssa.Function
	for f := range e.addrTaken {
		if f.Signature.Recv() == nil && types.Identical(f.Signature, sig) {
			out = append(out, f)
		}
	}
	sort.Slice(out, func(i, j int) bool { return out[i].String() < out[j].String() })
	return out
}

// staticVal evaluates a value of a package initialiser that does not depend on state.
func (u *Unit) staticVal(v ssa.Value) Term {
	switch x := v.(type) {
	case *ssa.Const:
		return u.constTerm(x)
	case *ssa.Function:
		return u.funcValue(x)
	case *ssa.ChangeType:
		t := u.staticVal(x.X)
		t.T = x.Type()
		return t
	case *ssa.MakeInterface:
		return u.staticVal(x.X)
	}
	panic(unsupported(fmt.Sprintf("table entry %s (%T) is not static", v.Name(), v)))
}

// boundTargets: methods whose bound value (x.M used as a function value) has the given signature.
func (e *Engine) boundTargets(sig *types.Signature) map[*ssa.Function]bool {
	out := map[*ssa.Function]bool{}
	e.funcCandidates(sig) // fills addrTaken
	for f := range e.addrTaken {
		if f.Synthetic == "" || !strings.HasSuffix(f.Name(), "$bound") {
			continue
		}
		if !types.Identical(f.Signature, sig) {
			continue
		}
		// the wrapped method: first static callee in the wrapper body
		for _, b := range f.Blocks {
			for _, ins := range b.Instrs {
				if c, ok := ins.(ssa.CallInstruction); ok {
					if m := c.Common().StaticCallee(); m != nil {
						out[m] = true
					}
				}
			}
		}
	}
	return out
}
