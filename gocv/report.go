package main

import (
	"crypto/sha256"
	"encoding/json"
	"fmt"
	"os"
	"path/filepath"
	"regexp"
	"sort"
	"strings"
)

type knownFinding struct {
	Kind       string // known | fixed
	Property   string
	Obligation string
	Text       string
}

var kfRe = regexp.MustCompile(`^(known|fixed):\s+property=(\S+)\s+obligation=(\S+)\s*(.*)$`)

func loadKnownFindings(path string) []knownFinding {
	data, err := os.ReadFile(path)
	if err != nil {
		return nil
	}
	var out []knownFinding
	for _, l := range strings.Split(string(data), "\n") {
		l = strings.TrimSpace(l)
		if m := kfRe.FindStringSubmatch(l); m != nil {
			out = append(out, knownFinding{m[1], m[2], m[3], m[4]})
		}
	}
	return out
}

var posSuffix = regexp.MustCompile(`@[^@/]*(/p\d+)?$`)

// baseName is the obligation name without source position and path ordinal.
func baseName(n string) string {
	return strings.ReplaceAll(posSuffix.ReplaceAllString(n, ""), " ", "_")
}

type replayFile struct {
	Property     string            `json:"property"`
	Obligation   string            `json:"obligation"`
	Kind         string            `json:"kind"`
	Class        string            `json:"class"` // counterexample | cti-not-reproduced | unknown | binding
	Function     string            `json:"function"`
	Position     string            `json:"position"`
	Clause       string            `json:"clause"`
	Solver       string            `json:"solver"`
	SolverResult string            `json:"solver_result"`
	AllResults   []string          `json:"all_solver_results"`
	SolverOutput string            `json:"solver_output"`
	SMTFile      string            `json:"smt_file"`
	Model        map[string]string `json:"model,omitempty"`
	GoTest       string            `json:"go_test_source,omitempty"`
	Package      string            `json:"overlay_package,omitempty"`
	Reproduced   bool              `json:"reproduced"`
	Observed     string            `json:"observed,omitempty"`
}

func (r *Run) writeBuildFailure(err error) string {
	dir := filepath.Join(r.verif, "replays", r.prop.ID)
	if r.scratchDir != "" {
		dir = filepath.Join(r.scratchDir, "replays")
	}
	_ = os.MkdirAll(dir, 0o755)
	p := filepath.Join(dir, "load-failure.json")
	rf := replayFile{Property: r.prop.ID, Obligation: "load#binding", Kind: "binding", Class: "binding", SolverOutput: err.Error()}
	data, _ := json.MarshalIndent(rf, "", " ")
	_ = os.WriteFile(p, data, 0o644)
	return p
}

func (r *Run) report(kf []knownFinding) {
	dir := filepath.Join(r.verif, "replays", r.prop.ID)
	if r.scratchDir != "" {
		dir = filepath.Join(r.scratchDir, "replays")
	}
	_ = os.RemoveAll(dir)
	all := append([]*Obligation{}, r.bindErrs...)
	all = append(all, r.failures...)
	printed := map[string]bool{}
	for _, o := range all {
		bn := baseName(o.Name)
		isKnown := false
		for _, k := range kf {
			if k.Kind == "known" && k.Property == r.prop.ID && k.Obligation == bn {
				isKnown = true
				if !printed[bn] {
					fmt.Printf("KNOWN-FINDING: property=%s %s %s\n", r.prop.ID, bn, k.Text)
					printed[bn] = true
					r.known = append(r.known, bn)
				}
			}
		}
		if isKnown {
			continue
		}
		_ = os.MkdirAll(dir, 0o755)
		rf := replayFile{Property: r.prop.ID, Obligation: o.Name, Kind: o.Kind, Function: o.Func, Position: o.Pos, Clause: o.Clause,
			Solver: o.Solver, SolverResult: o.Result, AllResults: o.AllResults, SolverOutput: truncate(o.Output, 20000), SMTFile: o.File}
		switch {
		case o.Kind == "binding":
			rf.Class = "binding"
		case o.Cover:
			rf.Class = "vacuity"
		case o.Result == "sat":
			rf.Class = "cti-not-reproduced"
			r.tryReplay(o, &rf)
		default:
			rf.Class = "unknown"
		}
		p := filepath.Join(dir, fileSafe(o.Name)+".json")
		data, _ := json.MarshalIndent(rf, "", " ")
		_ = os.WriteFile(p, data, 0o644)
		r.violations++
		if rf.Class == "counterexample" && rf.Reproduced {
			fmt.Printf("VIOLATION property=%s replay=%s\n", r.prop.ID, p)
		} else {
			fmt.Printf("VIOLATION property=%s replay=%s no-failing-input-found\n", r.prop.ID, p)
		}
		fmt.Fprintf(os.Stderr, "  failed obligation %s [%s] %s: %s\n", o.Name, o.Result, o.Pos, o.Clause)
	}
}

func truncate(s string, n int) string {
	if len(s) > n {
		return s[:n] + "…"
	}
	return s
}

func hashFile(p string) string {
	data, err := os.ReadFile(p)
	if err != nil {
		return ""
	}
	return fmt.Sprintf("%x", sha256.Sum256(data))[:16]
}

func (r *Run) writeEvidence() error {
	type sample struct {
		Obligation string `json:"obligation"`
		Kind       string `json:"kind"`
		Position   string `json:"position"`
		Clause     string `json:"clause"`
		Goal       string `json:"goal"`
		Result     string `json:"result"`
		Solver     string `json:"solver"`
		Millis     int64  `json:"solver_ms"`
	}
	byKind := map[string]int{}
	bySolver := map[string]int{}
	var total, discharged, covers, coversOK int
	var sumMs, maxMs int64
	var samples []sample
	seenKind := map[string]int{}
	for _, o := range r.obls {
		sumMs += o.Millis
		if o.Millis > maxMs {
			maxMs = o.Millis
		}
		if o.Cover {
			covers++
			if o.ok() {
				coversOK++
			}
			continue
		}
		total++
		byKind[o.Kind]++
		if o.ok() {
			discharged++
			bySolver[o.Solver]++
		}
		if seenKind[o.Kind] < 2 && o.Kind != "overflow" {
			seenKind[o.Kind]++
			samples = append(samples, sample{o.Name, o.Kind, o.Pos, o.Clause, truncate(o.Goal.S, 400), o.Result, o.Solver, o.Millis})
		}
	}
	total += len(r.bindErrs)
	var fns []string
	var notes []string
	noteSet := map[string]bool{}
	under := 0
	for _, rep := range r.reports {
		if rep.Contract {
			under++
		}
		fns = append(fns, rep.Key)
		for _, n := range rep.Notes {
			if !noteSet[n] {
				noteSet[n] = true
				notes = append(notes, n)
			}
		}
	}
	sort.Strings(notes)
	var ext []string
	for k := range r.external {
		ext = append(ext, "assumed external contract: "+k)
	}
	sort.Strings(ext)
	carried := map[string]bool{}
	for _, rep := range r.reports {
		carried[rep.Key] = true
	}
	var inrepo []string
	for k := range r.assumedContracts {
		if strings.Contains(k, "(as spec function)") {
			inrepo = append(inrepo, "contract used as spec function: "+k)
		} else if !carried[k] {
			inrepo = append(inrepo, "contract of /repo function used at call sites but not verified in this check (verified where it is a carrier): "+k)
		}
	}
	sort.Strings(inrepo)
	ext = append(ext, inrepo...)
	trusted := []string{
		"front end: go/packages + go/types + go/ssa (x/tools v0.29.0) translate the working tree faithfully for linux/amd64",
		"gocv: translation of SSA instructions, heap model, loop cutting, modular call rule",
		"solvers: an unsat answer of z3 5.1.0, z3 4.8.12 or cvc5 1.0.3",
		"language semantics axiomatised: UTF-8 decoding in range (weakened), map iteration (each key once, any order), append growth, integers mathematical with checked no-overflow side conditions",
	}
	trusted = append(trusted, r.prop.Trusted...)
	trusted = append(trusted, ext...)
	files := map[string]string{}
	for _, e := range r.engines {
		for _, f := range e.contracts.Files {
			files[f] = hashFile(f)
		}
	}
	type slow struct {
		Name   string `json:"obligation"`
		Ms     int64  `json:"solver_ms"`
		Solver string `json:"solver"`
	}
	var slowest []slow
	{
		byMs := append([]*Obligation(nil), r.obls...)
		sort.Slice(byMs, func(i, j int) bool { return byMs[i].Millis > byMs[j].Millis })
		for i := 0; i < len(byMs) && i < 8; i++ {
			slowest = append(slowest, slow{byMs[i].Name, byMs[i].Millis, byMs[i].Solver})
		}
	}
	cov := map[string]any{
		"slowest_obligations":      slowest,
		"obligations":              total,
		"discharged":               discharged,
		"checker_cmd":              fmt.Sprintf("/verif/bin/gocv verify --property %s --tier %s --repo %s", r.prop.ID, r.tier, r.repo),
		"trusted_base":             trusted,
		"functions_under_contract": under,
		"functions":                r.reports,
		"obligations_by_kind":      byKind,
		"discharged_by_solver":     bySolver,
		"solver_ms_sum":            sumMs,
		"solver_ms_max":            maxMs,
		"solver_timeout_s":         r.timeout,
		"vacuity": map[string]any{"cover_checks": covers, "not_refuted": coversOK, "return_paths_unreachable_under_contracts": r.deadReturns,
			"rule": "per function: `requires ∧ type facts` must not be unsat, and the path condition of at least one return must not be unsat; return paths that are dead under the callee contracts are listed"},
		"samples":                 samples,
		"contract_files":          files,
		"known_findings_reported": r.known,
		"abstractions":            notes,
		"bounded_standins":        []string{},
	}
	ev := map[string]any{
		"property_id": r.prop.ID,
		"tier":        r.tier,
		"seed":        r.seed,
		"level":       "proof",
		"coverage":    cov,
		"assumptions": append(append([]string{}, trusted...), notes...),
		"wall_s":      r.wall,
		"violations":  r.violations,
	}
	data, err := json.MarshalIndent(ev, "", " ")
	if err != nil {
		return err
	}
	dir := filepath.Join(r.verif, "evidence")
	_ = os.MkdirAll(dir, 0o755)
	return os.WriteFile(filepath.Join(dir, r.prop.ID+".json"), data, 0o644)
}

func cmdReplay(args []string) int {
	if len(args) < 1 {
		fmt.Fprintln(os.Stderr, "usage: gocv replay <file>")
		return 2
	}
	data, err := os.ReadFile(args[0])
	if err != nil {
		fmt.Fprintln(os.Stderr, err)
		return 2
	}
	var rf replayFile
	if err := json.Unmarshal(data, &rf); err != nil {
		fmt.Fprintln(os.Stderr, err)
		return 2
	}
	fmt.Printf("obligation %s (%s) class=%s reproduced=%v\n%s\n", rf.Obligation, rf.Clause, rf.Class, rf.Reproduced, rf.Observed)
	return 0
}
