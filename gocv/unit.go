package main

import (
	"fmt"
	"go/token"
	"go/types"
	"sort"
	"strings"

	"golang.org/x/tools/go/ssa"
)

// Obligation is one proof obligation: a path prefix (declarations and
// assumptions) plus a goal. It becomes one stand-alone SMT-LIB query.
type Obligation struct {
	Name   string
	Kind   string // safety, overflow, pre, post, inv-init, inv-keep, variant, frame, assert, guarded-by, ...
	Func   string
	Pos    string
	Tags   []string // property ids
	Clause string   // the contract text or a description
	Lines  []string // path-local declarations and assumptions
	Goal   Term
	Cover  bool // vacuity query: expected SAT
	unit   *Unit
	// filled by solver
	Result     string // unsat | sat | unknown | timeout
	Solver     string
	Millis     int64
	Model      string
	Output     string
	ModelOf    map[string]string // name -> term for replay
	Decided    bool              // decided by gocv itself, not by a solver
	File       string
	Tried      []string
	AllResults []string
	Disagree   bool
}

// Loc is a statically known memory location.
type Loc struct {
	Kind  int // 1 field/cell component indexed by ref; 2 element component indexed by base,idx
	Comp  string
	CSort string // sort of the component
	Ref   Term
	Idx   Term
	T     types.Type // pointee type
}

type iterState struct {
	kind string // "string" | "map"
	str  Term   // string being ranged
	pos  Term   // current byte offset
	mref Term   // map reference
	mT   *types.Map
	seen Term // Array K Bool
	cur  Term // key delivered by the last Next (map iterators); unset before the first one
}

type deferred struct {
	call *ssa.Defer
}

// State is the symbolic state along one path.
type State struct {
	vals      map[ssa.Value]Term
	locs      map[ssa.Value]Loc
	tuples    map[ssa.Value][]Term
	heap      map[string]Term
	iters     map[ssa.Value]*iterState
	lines     []string
	alloc     Term
	ghost     map[string]Term
	defers    []*ssa.Defer
	variant   map[*ssa.BasicBlock]Term
	entered   map[*ssa.BasicBlock]bool // loops whose header has been cut on this path
	pathID    []string
	dead      bool
	epoch     int
	scratch   bool
	loopIn    map[string]Term
	loopSnap  map[int]*State
	headSnap  map[int]*State // the state at the head of the current iteration (after havoc and invariants)
	snapBase  int             // for a snapshot: number of lines when it was taken
	merged    map[string]bool // snapshot lines already merged into this state
	tableKeys map[string][]Term
	epochID   int // identifies the last whole-heap havoc on this path
	declared  map[string]bool
	keepPkgs  []string // packages whose untouched components still have their entry value after whole-heap havocs
	keepNone  bool
	dbg       map[string]ssa.Value // the value a source variable was last seen with on this path (DebugRef)
	leaked    map[*ssa.Alloc]bool  // local allocations whose address has been handed out on this path
	contains  map[*ssa.Alloc][]containedRef
}

func (s *State) clone() *State {
	n := &State{
		vals:    make(map[ssa.Value]Term, len(s.vals)+8),
		locs:    make(map[ssa.Value]Loc, len(s.locs)+4),
		tuples:  make(map[ssa.Value][]Term, len(s.tuples)+2),
		heap:    make(map[string]Term, len(s.heap)+4),
		iters:   make(map[ssa.Value]*iterState, len(s.iters)),
		ghost:   make(map[string]Term, len(s.ghost)),
		variant: make(map[*ssa.BasicBlock]Term, len(s.variant)),
		entered: make(map[*ssa.BasicBlock]bool, len(s.entered)),
		alloc:   s.alloc,
		epoch:   s.epoch,
		scratch: s.scratch,
	}
	for k, v := range s.vals {
		n.vals[k] = v
	}
	for k, v := range s.locs {
		n.locs[k] = v
	}
	for k, v := range s.tuples {
		n.tuples[k] = v
	}
	for k, v := range s.heap {
		n.heap[k] = v
	}
	for k, v := range s.iters {
		c := *v
		n.iters[k] = &c
	}
	for k, v := range s.ghost {
		n.ghost[k] = v
	}
	for k, v := range s.variant {
		n.variant[k] = v
	}
	for k, v := range s.entered {
		n.entered[k] = v
	}
	n.tableKeys = s.tableKeys
	n.epochID = s.epochID
	if s.declared != nil {
		n.declared = make(map[string]bool, len(s.declared))
		for k := range s.declared {
			n.declared[k] = true
		}
	}
	n.keepPkgs = s.keepPkgs
	n.keepNone = s.keepNone
	if s.leaked != nil {
		n.leaked = make(map[*ssa.Alloc]bool, len(s.leaked))
		for k, v := range s.leaked {
			n.leaked[k] = v
		}
	}
	if s.contains != nil {
		n.contains = make(map[*ssa.Alloc][]containedRef, len(s.contains))
		for k, v := range s.contains {
			n.contains[k] = v
		}
	}
	if s.dbg != nil {
		n.dbg = make(map[string]ssa.Value, len(s.dbg))
		for k, v := range s.dbg {
			n.dbg[k] = v
		}
	}
	if s.merged != nil {
		n.merged = make(map[string]bool, len(s.merged))
		for k := range s.merged {
			n.merged[k] = true
		}
	}
	if s.headSnap != nil {
		n.headSnap = make(map[int]*State, len(s.headSnap))
		for k, v := range s.headSnap {
			n.headSnap[k] = v
		}
	}
	if s.loopSnap != nil {
		n.loopSnap = make(map[int]*State, len(s.loopSnap))
		for k, v := range s.loopSnap {
			n.loopSnap[k] = v
		}
	}
	if s.loopIn != nil {
		n.loopIn = make(map[string]Term, len(s.loopIn))
		for k, v := range s.loopIn {
			n.loopIn[k] = v
		}
	}
	n.lines = append([]string(nil), s.lines...)
	n.defers = append([]*ssa.Defer(nil), s.defers...)
	n.pathID = append([]string(nil), s.pathID...)
	return n
}

// declare adds a path-local constant once.
func (s *State) declare(name, sort string) {
	if s.declared == nil {
		s.declared = map[string]bool{}
	}
	if s.declared[name] {
		return
	}
	s.declared[name] = true
	s.lines = append(s.lines, fmt.Sprintf("(declare-const %s %s)", name, sort))
}

// mergeLines appends lines produced in a snapshot state, skipping constants already declared here.
// mergeSnap makes everything that evaluations in the snapshot have declared or defined since it was taken
// available in this state (the snapshot is shared by all paths that continue from it).
func (s *State) mergeSnap(snap *State) {
	if snap.snapBase > len(snap.lines) {
		return
	}
	if s.merged == nil {
		s.merged = map[string]bool{}
	}
	var add []string
	for _, l := range snap.lines[snap.snapBase:] {
		if s.merged[l] {
			continue
		}
		s.merged[l] = true
		add = append(add, l)
	}
	s.mergeLines(add)
}

func (s *State) mergeLines(lines []string) {
	for _, l := range lines {
		if strings.HasPrefix(l, "(declare-const ") {
			f := strings.Fields(l)
			if len(f) >= 2 && strings.Contains(f[1], "!e") {
				if s.declared == nil {
					s.declared = map[string]bool{}
				}
				if s.declared[f[1]] {
					continue
				}
				s.declared[f[1]] = true
			}
		}
		s.lines = append(s.lines, l)
	}
}

func (s *State) assume(t Term) {
	if t.S == "true" {
		return
	}
	s.lines = append(s.lines, "(assert "+t.S+")")
}

// Unit is the verification of one function.
type Unit struct {
	eng           *Engine
	fn            *ssa.Function
	key           string
	contract      *Contract
	framePol      *framePolicy
	pre           *Prelude
	obls          []*Obligation
	nfresh        int
	paths         int
	entry         *State                  // snapshot of the entry state (for old())
	entryHeap     map[string]Term         // component -> entry constant
	headers       map[*ssa.BasicBlock]int // loop header -> ordinal (1-based)
	loopBlocks    map[*ssa.BasicBlock]map[*ssa.BasicBlock]bool
	backCovers    map[*ssa.BasicBlock]int
	params        map[string]Term // contract name -> term (params, results bound later)
	logical       map[string]Term
	notes         []string // assumptions / abstractions made while translating
	noteSet       map[string]bool
	oblNames      map[string]int
	strLits       map[string]string
	maxPaths      int
	usedExternal  map[string]bool
	usedContracts map[string]bool
	sweep         bool // zero-annotation sweep: only safety obligations matter
	closure       *closureCtx
	axiomsUsed    map[string]bool
	tracking      map[string]string // when non-nil: components read while evaluating an opaque predicate body
}

func (u *Unit) note(s string) {
	if u.noteSet == nil {
		u.noteSet = map[string]bool{}
	}
	if !u.noteSet[s] {
		u.noteSet[s] = true
		u.notes = append(u.notes, s)
	}
}

func (u *Unit) freshName(prefix string) string {
	u.nfresh++
	return fmt.Sprintf("%s!%d", sanitize(prefix), u.nfresh)
}

// fresh declares a path-local constant.
func (u *Unit) fresh(st *State, prefix, sort string, t types.Type) Term {
	n := u.freshName(prefix)
	st.lines = append(st.lines, fmt.Sprintf("(declare-const %s %s)", n, sort))
	r := mkT(n, sort, t)
	if t != nil {
		st.assume(u.typeFacts(r, t))
	}
	return r
}

// define introduces a named constant equal to a term (keeps queries readable).
func (u *Unit) define(st *State, prefix string, v Term) Term {
	n := u.freshName(prefix)
	st.lines = append(st.lines, fmt.Sprintf("(declare-const %s %s)", n, v.Sort), fmt.Sprintf("(assert (= %s %s))", n, v.S))
	return mkT(n, v.Sort, v.T)
}

func (u *Unit) posString(p token.Pos) string {
	if !p.IsValid() {
		return ""
	}
	pp := u.eng.fset.Position(p)
	f := pp.Filename
	if i := strings.LastIndex(f, "/"); i >= 0 {
		f = f[i+1:]
	}
	return fmt.Sprintf("%s:%d:%d", f, pp.Line, pp.Column)
}

func (u *Unit) oblige(st *State, kind string, pos token.Pos, goal Term, clause string, tags []string) {
	if goal.S == "true" {
		// still count it: trivially discharged obligations are obligations
	}
	ps := u.posString(pos)
	base := fmt.Sprintf("%s#%s", u.key, kind)
	if clause != "" && (kind == "post" || kind == "pre" || kind == "inv-init" || kind == "inv-keep" || kind == "assert" || kind == "frame" || kind == "guarded-by" || kind == "variant") {
		base += ":" + clauseLabel(clause)
	}
	if ps != "" {
		base += "@" + ps
	}
	if u.oblNames == nil {
		u.oblNames = map[string]int{}
	}
	u.oblNames[base]++
	name := base
	if n := u.oblNames[base]; n > 1 {
		name = fmt.Sprintf("%s/p%d", base, n)
	}
	if len(tags) == 0 {
		tags = nil
	}
	o := &Obligation{Name: name, Kind: kind, Func: u.key, Pos: ps, Tags: tags, Clause: clause,
		Lines: append([]string(nil), st.lines...), Goal: goal, unit: u}
	u.obls = append(u.obls, o)
}

func clauseLabel(c string) string {
	c = strings.Join(strings.Fields(c), " ")
	if len(c) > 60 {
		c = c[:60] + "…"
	}
	return c
}

// ---------- heap ----------

func (u *Unit) compDecl(comp, sort string) {
	_ = sort
}

// heapGet returns the current value of a component, creating the entry constant on first touch.
func (u *Unit) heapGet(st *State, comp, sort string) Term {
	if u.tracking != nil {
		u.tracking[comp] = sort
	}
	if t, ok := st.heap[comp]; ok {
		return t
	}
	u.compSorts()[comp] = sort
	n := comp + "!0"
	u.pre.declConst(n, sort)
	if u.entryHeap == nil {
		u.entryHeap = map[string]Term{}
	}
	u.entryHeap[comp] = mk(n, sort)
	u.closedEntryComp(comp, n)
	if st.epoch > 0 && !pkgMatches(u.eng.compPkg[comp], st.keepPkgs) {
		// untouched since a havoc of the whole heap: unknown content, one constant per havoc event
		fn := fmt.Sprintf("%s!e%d", comp, st.epochID)
		st.declare(fn, sort)
		t := mk(fn, sort)
		st.heap[comp] = t
		return t
	}
	t := mk(n, sort)
	st.heap[comp] = t
	return t
}

func (u *Unit) compSorts() map[string]string {
	if u.eng.compSort == nil {
		u.eng.compSort = map[string]string{}
	}
	return u.eng.compSort
}

func (u *Unit) heapSet(st *State, comp string, v Term) {
	u.compSorts()[comp] = v.Sort
	if len(v.S) > 600 {
		// name large store chains: nested updates re-read the component and would grow exponentially
		v = u.define(st, comp, v)
	}
	st.heap[comp] = v
}

// havocComp replaces a component by a fresh constant.
func (u *Unit) havocComp(st *State, comp string) {
	sort, ok := u.compSorts()[comp]
	if !ok {
		return
	}
	// make sure the entry constant exists so that old() can refer to it
	u.heapGet(st, comp, sort)
	n := u.freshName(comp)
	st.lines = append(st.lines, fmt.Sprintf("(declare-const %s %s)", n, sort))
	st.heap[comp] = mk(n, sort)
}

func (u *Unit) fieldComp(structT types.Type, i int) (string, string, types.Type) {
	st := structT.Underlying().(*types.Struct)
	f := st.Field(i)
	comp := "F_" + u.eng.tn.mangle(structT) + "_" + sanitize(f.Name())
	u.eng.notePkg(comp, structT)
	u.eng.noteRefKind(comp, f.Type(), false)
	return comp, arraySort(SInt, u.sortOf(f.Type())), f.Type()
}

func (u *Unit) cellComp(t types.Type) (string, string) {
	comp := "C_" + u.eng.tn.mangle(t)
	u.eng.notePkg(comp, t)
	u.eng.noteRefKind(comp, t, false)
	return comp, arraySort(SInt, u.sortOf(t))
}

func (u *Unit) elemComp(t types.Type) (string, string) {
	comp := "E_" + u.eng.tn.mangle(t)
	u.eng.notePkg(comp, t)
	u.eng.noteRefKind(comp, t, true)
	return comp, arraySort(SInt, arraySort(SInt, u.sortOf(t)))
}

// subRef is the reference of a struct embedded by value as field i of the struct at r.
func (u *Unit) subRef(structT types.Type, i int, r Term) Term {
	st := structT.Underlying().(*types.Struct)
	f := st.Field(i)
	fn := "sub_" + u.eng.tn.mangle(structT) + "_" + sanitize(f.Name())
	if !u.pre.funSet[fn] {
		u.pre.declFun(fn, fmt.Sprintf("(declare-fun %s (Int) Int)", fn))
		u.pre.declFun(fn+"_inv", fmt.Sprintf("(declare-fun %s_inv (Int) Int)", fn))
		k := u.eng.kindOf(fn)
		u.pre.axiomFor("("+fn+" ", fmt.Sprintf("(forall ((r Int)) (! (and (= (%s_inv (%s r)) r) (= (rkind (%s r)) %d) (= (own (%s r)) (own r)) (> (%s r) 0)) :pattern ((%s r))))", fn, fn, fn, k, fn, fn, fn))
	}
	t := app(fn, SInt, r)
	t.T = types.NewPointer(f.Type())
	return t
}

// elemRef is the reference of struct element i of backing array b.
func (u *Unit) elemRef(elemT types.Type, b, i Term) Term {
	fn := "ea_" + u.eng.tn.mangle(elemT)
	if !u.pre.funSet[fn] {
		u.pre.declFun(fn, fmt.Sprintf("(declare-fun %s (Int Int) Int)", fn))
		u.pre.declFun(fn+"_b", fmt.Sprintf("(declare-fun %s_b (Int) Int)", fn))
		u.pre.declFun(fn+"_i", fmt.Sprintf("(declare-fun %s_i (Int) Int)", fn))
		k := u.eng.kindOf(fn)
		u.pre.axiomFor("("+fn+" ", fmt.Sprintf("(forall ((b Int) (i Int)) (! (and (= (%s_b (%s b i)) b) (= (%s_i (%s b i)) i) (= (rkind (%s b i)) %d) (= (own (%s b i)) (own b)) (> (%s b i) 0)) :pattern ((%s b i))))", fn, fn, fn, fn, fn, k, fn, fn, fn))
	}
	t := app(fn, SInt, b, i)
	t.T = types.NewPointer(elemT)
	return t
}

// load reads the value of Go type t stored at location l.
func (u *Unit) loadLoc(st *State, l Loc) Term {
	h := u.heapGet(st, l.Comp, l.CSort)
	var v Term
	if l.Kind == 2 {
		inner := arrayElemSort(l.CSort)
		v = sel(sel(h, l.Ref, inner), l.Idx, arrayElemSort(inner))
	} else {
		v = sel(h, l.Ref, arrayElemSort(l.CSort))
	}
	v.T = l.T
	return v
}

func (u *Unit) storeLoc(st *State, l Loc, v Term) {
	h := u.heapGet(st, l.Comp, l.CSort)
	if l.Kind == 2 {
		inner := arrayElemSort(l.CSort)
		u.heapSet(st, l.Comp, store(h, l.Ref, store(sel(h, l.Ref, inner), l.Idx, v)))
	} else {
		u.heapSet(st, l.Comp, store(h, l.Ref, v))
	}
}

// gather reads a whole struct value from the heap.
func (u *Unit) gather(st *State, t types.Type, r Term) Term {
	s := t.Underlying().(*types.Struct)
	var fs []Term
	for i := 0; i < s.NumFields(); i++ {
		ft := s.Field(i).Type()
		if _, ok := isStruct(ft); ok {
			fs = append(fs, u.gather(st, ft, u.subRef(t, i, r)))
			continue
		}
		if _, ok := ft.Underlying().(*types.Array); ok {
			u.note("array-valued struct field " + types.TypeString(t, u.eng.qual) + "." + s.Field(i).Name() + " is not modelled")
			continue
		}
		comp, cs, _ := u.fieldComp(t, i)
		fs = append(fs, u.loadLoc(st, Loc{Kind: 1, Comp: comp, CSort: cs, Ref: r, T: ft}))
	}
	return u.mkStruct(t, fs)
}

// scatter writes a whole struct value to the heap.
func (u *Unit) scatter(st *State, t types.Type, r Term, v Term) {
	s := t.Underlying().(*types.Struct)
	for i := 0; i < s.NumFields(); i++ {
		ft := s.Field(i).Type()
		if _, ok := ft.Underlying().(*types.Array); ok {
			continue
		}
		fv := u.structField(v, t, i)
		if _, ok := isStruct(ft); ok {
			u.scatter(st, ft, u.subRef(t, i, r), fv)
			continue
		}
		comp, cs, _ := u.fieldComp(t, i)
		u.storeLoc(st, Loc{Kind: 1, Comp: comp, CSort: cs, Ref: r, T: ft}, fv)
	}
}

// structComps lists all leaf components under a struct type (for frames and havoc).
func (u *Unit) structComps(t types.Type, out map[string]string) {
	s := t.Underlying().(*types.Struct)
	for i := 0; i < s.NumFields(); i++ {
		ft := s.Field(i).Type()
		if _, ok := isStruct(ft); ok {
			u.structComps(ft, out)
			continue
		}
		if _, ok := ft.Underlying().(*types.Array); ok {
			continue
		}
		comp, cs, _ := u.fieldComp(t, i)
		out[comp] = cs
	}
}

// allocRef creates a fresh top-level reference.
func (u *Unit) allocRef(st *State, prefix string) Term {
	r := u.fresh(st, prefix, SInt, nil)
	st.assume(and(lt(st.alloc, r), eq(app("own", SInt, r), r), eq(app("rkind", SInt, r), intLit(0))))
	st.alloc = r
	return r
}

// knownRef records that v is a reference that already exists (loaded from the heap or received).
func (u *Unit) knownRef(st *State, v Term, t types.Type) {
	if t == nil {
		return
	}
	switch t.Underlying().(type) {
	case *types.Pointer, *types.Map, *types.Chan:
		st.assume(and(le(intLit(0), v), le(app("own", SInt, v), st.alloc)))
	case *types.Slice:
		st.assume(le(app("own", SInt, app("sbase", SInt, v)), st.alloc))
	}
}

// entryClosed: the heap at function entry is closed — an object that existed at entry only refers
// to objects that existed at entry. Applied when a reference is loaded from a component that has not
// been written since entry.
func (u *Unit) entryClosed(st *State, l Loc, v Term, t types.Type) {
	cur, ok := st.heap[l.Comp]
	if !ok || cur.S != l.Comp+"!0" {
		return
	}
	var tgt Term
	switch t.Underlying().(type) {
	case *types.Pointer, *types.Map, *types.Chan:
		tgt = v
	case *types.Slice:
		tgt = app("sbase", SInt, v)
	default:
		return
	}
	st.assume(implies(le(app("own", SInt, l.Ref), u.entry.alloc), le(app("own", SInt, tgt), u.entry.alloc)))
}

// ---------- loops ----------

func (u *Unit) findLoops() {
	u.headers = map[*ssa.BasicBlock]int{}
	u.loopBlocks = map[*ssa.BasicBlock]map[*ssa.BasicBlock]bool{}
	var hs []*ssa.BasicBlock
	for _, b := range u.fn.Blocks {
		for _, p := range b.Preds {
			if b.Dominates(p) {
				if _, ok := u.loopBlocks[b]; !ok {
					u.loopBlocks[b] = map[*ssa.BasicBlock]bool{b: true}
					hs = append(hs, b)
				}
				// natural loop of back edge p->b
				var stack []*ssa.BasicBlock
				if !u.loopBlocks[b][p] {
					u.loopBlocks[b][p] = true
					stack = append(stack, p)
				}
				for len(stack) > 0 {
					x := stack[len(stack)-1]
					stack = stack[:len(stack)-1]
					for _, q := range x.Preds {
						if !u.loopBlocks[b][q] {
							u.loopBlocks[b][q] = true
							stack = append(stack, q)
						}
					}
				}
			}
		}
	}
	// ordinal = source order of the loop statement; header blocks are emitted
	// by go/ssa in source pre-order, so block index order is statement order.
	sort.Slice(hs, func(i, j int) bool { return hs[i].Index < hs[j].Index })
	for i, h := range hs {
		u.headers[h] = i + 1
	}
}

// closedEntryComp: every reference held in the heap at function entry designates an object that exists at
// entry (own <= alloc!0). Stated once per component of reference kind, for the entry constant, with the read
// as trigger, so that it is also available for elements and fields reached under a quantifier.
func (u *Unit) closedEntryComp(comp, name string) {
	k := u.eng.compRef[comp]
	if k == "" {
		return
	}
	val := func(x string) string {
		if strings.HasPrefix(k, "slice") {
			return "(sbase " + x + ")"
		}
		return x
	}
	// only for objects that exist at entry: the entry constant also describes, at references allocated later
	// by callees without heap effect (pure constructors), the objects those callees return
	var ax string
	if strings.HasSuffix(k, "/elem") {
		r := "(select (select " + name + " b!c) i!c)"
		ax = fmt.Sprintf("(forall ((b!c Int) (i!c Int)) (! (=> (<= (own b!c) alloc!0) (<= (own %s) alloc!0)) :pattern (%s)))", val(r), r)
	} else {
		r := "(select " + name + " r!c)"
		ax = fmt.Sprintf("(forall ((r!c Int)) (! (=> (<= (own r!c) alloc!0) (<= (own %s) alloc!0)) :pattern (%s)))", val(r), r)
	}
	u.pre.axiomFor(name+" |"+name+")", ax)
}
