package main

import (
	"fmt"
	"go/ast"

	"go/token"
	"go/types"
	"golang.org/x/tools/go/ssa"
	"strconv"
	"strings"
)

// EvalCtx evaluates contract expressions into SMT terms in a given state.
type EvalCtx struct {
	u               *Unit
	st              *State
	old             *State
	vars            map[string]Term
	pkg             *types.Package // package whose scope resolves type names and preds
	bound           map[string]bool
	side            []Term // extensionality instances etc. to assume alongside
	depth           int
	polarityUnknown bool
	loopSnap        *State
	headSnap        *State
	closureArgs     map[string]*ssa.MakeClosure // function-valued parameters bound to closures created by the caller
	cells           map[string]Loc              // captured variables of the closure whose contract is evaluated: name -> cell
}

func (c *EvalCtx) child() *EvalCtx {
	n := *c
	n.vars = map[string]Term{}
	for k, v := range c.vars {
		n.vars[k] = v
	}
	n.bound = map[string]bool{}
	for k, v := range c.bound {
		n.bound[k] = v
	}
	return &n
}

type evalErr struct{ msg string }

func (e evalErr) Error() string { return e.msg }

func (c *EvalCtx) fail(format string, a ...any) {
	panic(evalErr{fmt.Sprintf(format, a...)})
}

func (c *EvalCtx) mentionsBound(t Term) bool {
	for b := range c.bound {
		if strings.Contains(t.S, b) {
			return true
		}
	}
	return false
}

func (c *EvalCtx) eval(e ast.Expr) Term {
	switch x := e.(type) {
	case *ast.ParenExpr:
		return c.eval(x.X)
	case *ast.BasicLit:
		switch x.Kind {
		case token.INT:
			return mkT(x.Value, SInt, types.Typ[types.Int])
		case token.CHAR:
			r, _, _, err := strconv.UnquoteChar(x.Value[1:len(x.Value)-1], '\'')
			if err != nil {
				c.fail("bad char literal %s", x.Value)
			}
			return mkT(fmt.Sprintf("%d", r), SInt, types.Typ[types.Rune])
		case token.STRING:
			s, err := strconv.Unquote(x.Value)
			if err != nil {
				c.fail("bad string literal %s", x.Value)
			}
			return c.u.strLit(s)
		}
	case *ast.Ident:
		return c.ident(x.Name)
	case *ast.UnaryExpr:
		v := c.eval(x.X)
		switch x.Op {
		case token.NOT:
			return not(v)
		case token.SUB:
			return app("-", SInt, v)
		case token.AND:
			// &x.f : address of an embedded struct
			return c.addrOf(x.X)
		}
	case *ast.StarExpr:
		p := c.eval(x.X)
		return c.deref(p)
	case *ast.BinaryExpr:
		return c.binary(x)
	case *ast.CallExpr:
		return c.call(x)
	case *ast.IndexExpr:
		return c.index(x)
	case *ast.SliceExpr:
		return c.sliceExpr(x)
	case *ast.SelectorExpr:
		return c.selector(x)
	}
	c.fail("unsupported contract expression %T", e)
	return Term{}
}

func (c *EvalCtx) ident(name string) Term {
	switch name {
	case "true":
		return tTrue
	case "false":
		return tFalse
	case "nil":
		return mkT("0", SInt, types.Typ[types.UntypedNil])
	}
	if v, ok := c.vars[name]; ok {
		return v
	}
	if strings.HasPrefix(name, "__h_") {
		c.fail("hidden variable #%s is not available at this program point", strings.TrimPrefix(name, "__h_"))
	}
	switch name {
	case "held":
		h, _ := c.u.lockGhost(c.st)
		return h
	case "excl":
		return c.u.exclTerm(c.st)
	}
	if c.st != nil {
		if g, ok := c.st.ghost[name]; ok {
			return g
		}
	}
	if k, ok := c.u.eng.specConsts[name]; ok {
		return k
	}
	// package-level variable of the contract's package
	if c.pkg != nil {
		if sp := c.u.eng.spkgs[c.pkg.Path()]; sp != nil {
			if g, ok := sp.Members[name].(*ssa.Global); ok {
				return c.loadGlobal(&globalInfo{g})
			}
		}
	}
	c.fail("unknown name %q in contract", name)
	return Term{}
}

func (c *EvalCtx) binary(x *ast.BinaryExpr) Term {
	switch x.Op {
	case token.LAND:
		return and(c.eval(x.X), c.eval(x.Y))
	case token.LOR:
		return or(c.eval(x.X), c.eval(x.Y))
	}
	a, b := c.eval(x.X), c.eval(x.Y)
	switch x.Op {
	case token.EQL, token.NEQ:
		var r Term
		if a.Sort == SStr || b.Sort == SStr {
			r = c.strEq(x.X, x.Y, a, b)
		} else {
			if a.Sort != b.Sort {
				c.fail("comparison of different sorts %s and %s in %s", a.Sort, b.Sort, exprString(x))
			}
			r = eq(a, b)
		}
		if x.Op == token.NEQ {
			return not(r)
		}
		return r
	case token.LSS:
		return lt(a, b)
	case token.LEQ:
		return le(a, b)
	case token.GTR:
		return lt(b, a)
	case token.GEQ:
		return le(b, a)
	case token.ADD:
		if a.Sort == SStr {
			r := app("scat", SStr, a, b)
			r.T = types.Typ[types.String]
			return r
		}
		return mkT(add(a, b).S, SInt, a.T)
	case token.SUB:
		return mkT(sub(a, b).S, SInt, a.T)
	case token.MUL:
		return mkT(app("*", SInt, a, b).S, SInt, a.T)
	case token.QUO:
		return mkT(app("div", SInt, a, b).S, SInt, a.T)
	case token.REM:
		return mkT(app("mod", SInt, a, b).S, SInt, a.T)
	}
	c.fail("unsupported operator %s", x.Op)
	return Term{}
}

func (c *EvalCtx) strEq(xe, ye ast.Expr, a, b Term) Term {
	if l, ok := ye.(*ast.BasicLit); ok && l.Kind == token.STRING {
		s, _ := strconv.Unquote(l.Value)
		return c.u.strEqLit(a, s)
	}
	if l, ok := xe.(*ast.BasicLit); ok && l.Kind == token.STRING {
		s, _ := strconv.Unquote(l.Value)
		return c.u.strEqLit(b, s)
	}
	if !c.mentionsBound(a) && !c.mentionsBound(b) {
		c.side = append(c.side, c.u.extInstance(a, b))
		return eq(a, b)
	}
	// under a quantifier: seq(a,b) carries its own extensionality instance when instantiated
	return app("seq", SBool, a, b)
}

func (c *EvalCtx) call(x *ast.CallExpr) Term {
	fn, ok := x.Fun.(*ast.Ident)
	if !ok {
		if se, ok := x.Fun.(*ast.SelectorExpr); ok {
			// method-like spec call on package: not supported
			c.fail("unsupported call %s", exprString(se))
		}
		c.fail("unsupported call expression")
	}
	switch fn.Name {
	case "len":
		v := c.eval(x.Args[0])
		switch v.Sort {
		case SStr:
			return mkT("(slen "+v.S+")", SInt, types.Typ[types.Int])
		case SSlice:
			return mkT("(slen_ "+v.S+")", SInt, types.Typ[types.Int])
		case SInt:
			if v.T != nil {
				if _, ok := v.T.Underlying().(*types.Map); ok {
					mc := c.u.mapComps(v.T)
					return c.u.mapCard(c.st, mc, v)
				}
			}
		}
		c.fail("len of %s", v.Sort)
	case "cap":
		v := c.eval(x.Args[0])
		return mkT("(scap "+v.S+")", SInt, types.Typ[types.Int])
	case "implies":
		return implies(c.eval(x.Args[0]), c.eval(x.Args[1]))
	case "iff":
		return eq(c.eval(x.Args[0]), c.eval(x.Args[1]))
	case "ite":
		return ite(c.eval(x.Args[0]), c.eval(x.Args[1]), c.eval(x.Args[2]))
	case "old":
		if c.old == nil {
			return c.eval(x.Args[0])
		}
		n := *c
		n.st = c.old
		n.old = nil
		r := n.eval(x.Args[0])
		c.side = append(c.side, n.side[len(c.side):]...)
		return r
	case "val":
		// val(p): the struct value stored at p (all fields gathered), for value-level predicates
		v := c.eval(x.Args[0])
		if v.T == nil {
			c.fail("val() of untyped operand")
		}
		t := unwrapRef(v.T)
		if pt, ok := t.Underlying().(*types.Pointer); ok {
			t = pt.Elem()
		}
		if _, ok := isStruct(t); !ok {
			c.fail("val() of non-struct %s", types.TypeString(t, nil))
		}
		return c.u.gather(c.st, t, mk(v.S, SInt))
	case "atloop":
		// atloop(e): e evaluated in the heap as it was when the loop was entered
		if c.loopSnap == nil {
			c.fail("atloop() outside a loop invariant")
		}
		n := *c
		n.st = c.loopSnap
		r := n.eval(x.Args[0])
		c.st.mergeSnap(c.loopSnap)
		c.side = append(c.side, n.side[len(c.side):]...)
		return r
	case "athead":
		// athead(e): e evaluated in the heap as it was at the head of the current loop iteration
		if c.headSnap == nil {
			c.fail("athead() outside a loop body")
		}
		n := *c
		n.st = c.headSnap
		r := n.eval(x.Args[0])
		c.st.mergeSnap(c.headSnap)
		c.side = append(c.side, n.side[len(c.side):]...)
		return r
	case "fresh":
		v := c.eval(x.Args[0])
		base := c.u.entry
		if c.old != nil {
			base = c.old
		}
		if v.Sort == SSlice {
			v = app("sbase", SInt, v)
		}
		return lt(base.alloc, app("own", SInt, v))
	case "existing":
		v := c.eval(x.Args[0])
		base := c.u.entry
		if c.old != nil {
			base = c.old
		}
		if v.Sort == SSlice {
			v = app("sbase", SInt, v)
		}
		return le(app("own", SInt, v), base.alloc)
	case "has":
		m := c.eval(x.Args[0])
		k := c.eval(x.Args[1])
		if m.T != nil {
			if _, ok := m.T.Underlying().(*types.Map); ok {
				mc := c.u.mapComps(m.T)
				return sel(c.u.mapDom(c.st, mc, m), k, SBool)
			}
		}
		if strings.HasPrefix(m.Sort, "(Array") {
			return sel(m, k, SBool)
		}
		c.fail("has() on non-map")
	case "forall", "exists":
		return c.quant(fn.Name, x)
	case "base":
		v := c.eval(x.Args[0])
		return mkT("(sbase "+v.S+")", SInt, nil)
	case "off":
		v := c.eval(x.Args[0])
		return mkT("(soff "+v.S+")", SInt, nil)
	case "own":
		v := c.eval(x.Args[0])
		if v.Sort == SSlice {
			v = app("sbase", SInt, v)
		}
		return mkT("(own "+v.S+")", SInt, nil)
	case "wraps":
		a, b := c.eval(x.Args[0]), c.eval(x.Args[1])
		c.u.pre.declFun("wraps", "(declare-fun wraps (Int Int) Bool)")
		return app("wraps", SBool, a, b)
	case "typeis":
		// typeis(v, T): dynamic type of interface value v is T
		v := c.eval(x.Args[0])
		t := c.u.eng.resolveType(c.pkg, x.Args[1])
		c.u.pre.declFun("itag", "(declare-fun itag (Int) Int)")
		return and(not(eq(v, intLit(0))), eq(app("itag", SInt, v), intLit(int64(c.u.eng.typeTag(t)))))
	case "as":
		// as(v, T): payload of interface value v seen as T
		v := c.eval(x.Args[0])
		t := c.u.eng.resolveType(c.pkg, x.Args[1])
		r := app(c.u.payloadFn(t), c.u.sortOf(t), v)
		r.T = t
		return r
	case "trig":
		// trig(pattern, body): body annotated with an E-matching trigger (for declared axioms)
		pat := c.eval(x.Args[0])
		if len(x.Args) > 2 {
			// trig(p1, p2, ..., body): one multi-pattern
			for _, a := range x.Args[1 : len(x.Args)-1] {
				pat.S += " " + c.eval(a).S
			}
		}
		body := c.eval(x.Args[len(x.Args)-1])
		if !c.mentionsBound(pat) {
			// not under a quantifier here (e.g. logical variables while verifying the function itself)
			return body
		}
		body.Pat = pat.S
		return body
	case "returned":
		// returned(fn, x): x satisfies what the contract of the closure bound to fn says about its result
		id, ok := x.Args[0].(*ast.Ident)
		if !ok {
			c.fail("returned(fn, x)")
		}
		val := c.eval(x.Args[1])
		mc := c.closureArgs[id.Name]
		if mc == nil {
			return tTrue
		}
		fn2 := mc.Fn.(*ssa.Function)
		c2 := c.u.eng.contractFor(fn2)
		if c2 == nil || len(c2.Results) != 1 {
			return tTrue
		}
		var cs []Term
		for _, e := range c2.Ensures {
			func() {
				defer func() {
					if r := recover(); r != nil {
						if _, ok := r.(evalErr); !ok {
							panic(r)
						}
					}
				}()
				n := &EvalCtx{u: c.u, st: c.st, old: c.old, bound: map[string]bool{}, vars: map[string]Term{c2.Results[0]: val}}
				n.pkg = calleePkg(fn2)
				cs = append(cs, n.eval(e.Expr))
			}()
		}
		return and(cs...)
	case "cast":
		// cast(x, T): the ghost reference x seen as a value of (pointer) type T
		v := c.eval(x.Args[0])
		t := c.u.eng.resolveType(c.pkg, x.Args[1])
		v.T = t
		return v
	case "constmap":
		// constmap(v): the ghost map that is v everywhere (string keys)
		v := c.eval(x.Args[0])
		as := arraySort(SStr, v.Sort)
		return mk(fmt.Sprintf("((as const %s) %s)", as, v.S), as)
	case "pos":
		// pos(s, i): the position of s[i] in the backing array, a heap-independent term to use in triggers
		v, i := c.eval(x.Args[0]), c.eval(x.Args[1])
		if v.Sort != SSlice {
			c.fail("pos() of a non-slice")
		}
		return mkT(app("sidx", SInt, v, i).S, SInt, types.Typ[types.Int])
	case "constarr":
		// constarr(v): the ghost array (integer index) that is v everywhere
		v := c.eval(x.Args[0])
		as := arraySort(SInt, v.Sort)
		return mk(fmt.Sprintf("((as const %s) %s)", as, v.S), as)
	case "allocNow":
		// the allocation bound of the current state: every object existing now has own() <= allocNow()
		return mkT(c.st.alloc.S, SInt, types.Typ[types.Int])
	case "store":
		a, i, v := c.eval(x.Args[0]), c.eval(x.Args[1]), c.eval(x.Args[2])
		return store(a, i, v)
	case "preserved":
		// preserved(pkg): every heap component of that package has its entry value at every reference that existed at entry
		lit, ok := x.Args[0].(*ast.BasicLit)
		if !ok {
			c.fail("preserved(\"package/path\")")
		}
		pk, _ := strconv.Unquote(lit.Value)
		return c.u.preservedTerm(c.st, []string{pk})
	case "succeeds":
		// succeeds(F, args...): the (last) error result of deterministic function F is nil
		id, ok := x.Args[0].(*ast.Ident)
		if !ok {
			c.fail("succeeds(F, args...)")
		}
		dc := c.u.eng.deterministicByName(c.pkg, id.Name)
		if dc == nil {
			c.fail("succeeds: %s is not a deterministic function under contract", id.Name)
		}
		var args []Term
		for _, a := range x.Args[1:] {
			args = append(args, c.eval(a))
		}
		return eq(c.u.detResult(dc, len(dc.Results)-1, args), intLit(0))
	case "nth":
		// nth(F, i, args...): the i-th result (from 0) of deterministic function F
		id, ok := x.Args[0].(*ast.Ident)
		lit, ok2 := x.Args[1].(*ast.BasicLit)
		if !ok || !ok2 {
			c.fail("nth(F, i, args...)")
		}
		dc := c.u.eng.deterministicByName(c.pkg, id.Name)
		if dc == nil {
			c.fail("nth: %s is not a deterministic function under contract", id.Name)
		}
		i, _ := strconv.Atoi(lit.Value)
		var args []Term
		for _, a := range x.Args[2:] {
			args = append(args, c.eval(a))
		}
		return c.u.detResult(dc, i, args)
	case "unchanged":
		// unchanged(x.f) : the designated heap location has its old value
		cur := c.eval(x.Args[0])
		if c.old == nil {
			return tTrue
		}
		n := *c
		n.st = c.old
		n.old = nil
		o := n.eval(x.Args[0])
		return eq(cur, o)
	}
	if pd, ok := c.u.eng.contracts.Preds[fn.Name]; ok {
		return c.expandPred(pd, x)
	}
	for _, uf := range c.u.eng.contracts.UFuns {
		if uf.Name != fn.Name {
			continue
		}
		pkg := c.u.eng.pkgByPath(uf.Pkg)
		var args []Term
		var sorts []string
		for i, a := range x.Args {
			args = append(args, c.eval(a))
			sorts = append(sorts, c.u.sortOf(c.u.eng.resolveType(pkg, uf.Params[i].Type)))
		}
		rt := c.u.eng.resolveType(pkg, uf.Result.Type)
		name := "uf_" + uf.Name
		c.u.pre.declFun(name, fmt.Sprintf("(declare-fun %s (%s) %s)", name, strings.Join(sorts, " "), c.u.sortOf(rt)))
		c.u.useAxioms(uf.Name)
		r := app(name, c.u.sortOf(rt), args...)
		r.T = rt
		return r
	}
	// a deterministic /repo function used as a spec function: F(args) denotes its first result
	if dc := c.u.eng.deterministicByName(c.pkg, fn.Name); dc != nil {
		var args []Term
		for _, a := range x.Args {
			args = append(args, c.eval(a))
		}
		return c.u.detResult(dc, 0, args)
	}
	c.fail("unknown spec function %q", fn.Name)
	return Term{}
}

func (c *EvalCtx) expandPred(pd *PredDef, x *ast.CallExpr) Term {
	if len(x.Args) != len(pd.Params) {
		c.fail("pred %s expects %d arguments", pd.Name, len(pd.Params))
	}
	if c.depth > 40 {
		c.fail("pred expansion too deep (recursive pred %s?)", pd.Name)
	}
	if pd.Opaque && !c.u.reveals(pd.Name) {
		var args []Term
		var sorts []string
		for _, a := range x.Args {
			t := c.eval(a)
			args = append(args, t)
			sorts = append(sorts, t.Sort)
		}
		// the footprint of the body: the heap components it reads become extra arguments,
		// so that the atom denotes the predicate in exactly this state
		saved := c.u.tracking
		c.u.tracking = map[string]string{}
		func() {
			defer func() { recover() }()
			n := *c
			n.side = nil
			n.expandPredArgs(pd, args)
		}()
		fp := c.u.tracking
		c.u.tracking = saved
		for _, comp := range sortedKeys(fp) {
			args = append(args, c.u.heapGet(c.st, comp, fp[comp]))
			sorts = append(sorts, fp[comp])
		}
		n := "opq_" + pd.Name
		c.u.pre.declFun(n, fmt.Sprintf("(declare-fun %s (%s) Bool)", n, strings.Join(sorts, " ")))
		return app(n, SBool, args...)
	}
	if pd.Abstract {
		// abstract predicate: uninterpreted boolean over its arguments and a version of the state
		var args []Term
		var sorts []string
		for _, a := range x.Args {
			t := c.eval(a)
			args = append(args, t)
			sorts = append(sorts, t.Sort)
		}
		n := "apred_" + pd.Name
		c.u.pre.declFun(n, fmt.Sprintf("(declare-fun %s (%s) Bool)", n, strings.Join(sorts, " ")))
		return app(n, SBool, args...)
	}
	return c.expandPredBody(pd, x)
}

func (c *EvalCtx) expandPredBody(pd *PredDef, x *ast.CallExpr) Term {
	var args []Term
	for _, a := range x.Args {
		args = append(args, c.eval(a))
	}
	return c.expandPredArgs(pd, args)
}

func (c *EvalCtx) expandPredArgs(pd *PredDef, args []Term) Term {
	n := c.child()
	n.depth = c.depth + 1
	n.side = nil
	pkg := c.u.eng.pkgByPath(pd.Pkg)
	if pkg != nil {
		n.pkg = pkg
	}
	n.vars = map[string]Term{}
	// predicates see ghost/global names of the caller context through st only
	for i, p := range pd.Params {
		v := args[i]
		if p.Type != nil {
			if t := c.u.eng.resolveTypeOpt(n.pkg, p.Type); t != nil {
				if (v.T == nil || isUntypedNil(v.T)) && c.u.sortOf(t) == v.Sort {
					v.T = t
				}
			}
		}
		n.vars[p.Name] = v
	}
	// hidden and logical variables stay visible inside predicates
	for k, v := range c.vars {
		if strings.HasPrefix(k, "__h_") {
			if _, clash := n.vars[k]; !clash {
				n.vars[k] = v
			}
		}
	}
	r := n.eval(pd.Body)
	c.side = append(c.side, n.side...)
	return r
}

func isUntypedNil(t types.Type) bool {
	b, ok := t.(*types.Basic)
	return ok && b.Kind() == types.UntypedNil
}

func sameSortType(a, b types.Type) bool {
	return types.Identical(a, b)
}

func (c *EvalCtx) quant(kind string, x *ast.CallExpr) Term {
	if len(x.Args) != 3 && len(x.Args) != 4 {
		c.fail("%s(var, guard, body) or %s(var, type, guard, body)", kind, kind)
	}
	id, ok := x.Args[0].(*ast.Ident)
	if !ok {
		c.fail("%s: first argument must be a variable name", kind)
	}
	n := c.child()
	c.u.nfresh++
	bn := fmt.Sprintf("%s?%d", id.Name, c.u.nfresh)
	sort := SInt
	var gt types.Type = types.Typ[types.Int]
	gi, bi := 1, 2
	if len(x.Args) == 4 {
		gt = c.u.eng.resolveType(c.pkg, x.Args[1])
		sort = c.u.sortOf(gt)
		gi, bi = 2, 3
	}
	n.vars[id.Name] = mkT(bn, sort, gt)
	n.bound[bn] = true
	n.side = nil
	g := n.eval(x.Args[gi])
	b := n.eval(x.Args[bi])
	// side conditions mentioning no bound variable can be hoisted
	c.side = append(c.side, n.side...)
	if kind == "forall" {
		// forall(x, T, true, forall(y, ...)) becomes one quantifier with several binders,
		// so that a trigger can mention all of them
		if g.S == "true" && strings.HasPrefix(b.S, "(forall (") {
			return mk("(forall (("+bn+" "+sort+") "+strings.TrimPrefix(b.S, "(forall ("), SBool)
		}
		qid := strings.ReplaceAll(bn, "?", "_")
		if b.Pat != "" {
			return mk(fmt.Sprintf("(forall ((%s %s)) (! %s :qid %s :pattern (%s)))", bn, sort, implies(g, b).S, qid, b.Pat), SBool)
		}
		return mk(fmt.Sprintf("(forall ((%s %s)) (! %s :qid %s))", bn, sort, implies(g, b).S, qid), SBool)
	}
	return mk(fmt.Sprintf("(exists ((%s %s)) %s)", bn, sort, and(g, b).S), SBool)
}

func (c *EvalCtx) index(x *ast.IndexExpr) Term {
	v := c.eval(x.X)
	i := c.eval(x.Index)
	switch {
	case v.Sort == SStr:
		return mkT(fmt.Sprintf("(sat %s %s)", v.S, i.S), SInt, types.Typ[types.Uint8])
	case v.Sort == SSlice:
		if v.T == nil {
			c.fail("index of untyped slice %s", exprString(x.X))
		}
		et := v.T.Underlying().(*types.Slice).Elem()
		idx := app("sidx", SInt, v, i)
		if _, ok := isStruct(et); ok {
			r := c.u.elemRef(et, app("sbase", SInt, v), idx)
			// a struct element designates the struct at that reference; field selection follows
			r.T = types.NewPointer(et)
			return mkT(r.S, SInt, refOf(et))
		}
		comp, cs := c.u.elemComp(et)
		l := Loc{Kind: 2, Comp: comp, CSort: cs, Ref: app("sbase", SInt, v), Idx: idx, T: et}
		return c.u.loadLoc(c.st, l)
	case strings.HasPrefix(v.Sort, "(Array"):
		return mkT(fmt.Sprintf("(select %s %s)", v.S, i.S), arrayElemSort(v.Sort), nil)
	case v.T != nil:
		if mt, ok := v.T.Underlying().(*types.Map); ok {
			mc := c.u.mapComps(v.T)
			in := sel(c.u.mapDom(c.st, mc, v), i, SBool)
			r := ite(in, sel(c.u.mapVal(c.st, mc, v), i, mc.vs), c.u.zero(mt.Elem()))
			r.T = mt.Elem()
			return r
		}
	}
	c.fail("cannot index %s (sort %s)", exprString(x.X), v.Sort)
	return Term{}
}

// structRef marks a Term that denotes "the struct stored at reference r" (an lvalue of struct type).
type structRefType struct{ types.Type }

func refOf(t types.Type) types.Type { return structRefType{t} }

func (c *EvalCtx) sliceExpr(x *ast.SliceExpr) Term {
	v := c.eval(x.X)
	var lo, hi Term
	if x.Low != nil {
		lo = c.eval(x.Low)
	} else {
		lo = intLit(0)
	}
	if v.Sort == SStr {
		if x.High != nil {
			hi = c.eval(x.High)
		} else {
			hi = mk("(slen "+v.S+")", SInt)
		}
		return mkT(fmt.Sprintf("(ssub %s %s %s)", v.S, lo.S, hi.S), SStr, types.Typ[types.String])
	}
	if v.Sort == SSlice {
		if x.High != nil {
			hi = c.eval(x.High)
		} else {
			hi = mk("(slen_ "+v.S+")", SInt)
		}
		return mkT(fmt.Sprintf("(mkslice (sbase %s) (+ (soff %s) %s) (- %s %s) (- (scap %s) %s))", v.S, v.S, lo.S, hi.S, lo.S, v.S, lo.S), SSlice, v.T)
	}
	c.fail("slice expression on %s", v.Sort)
	return Term{}
}

// fieldPath finds field `name` in struct type t, following embedded fields. Each step is a field index.
func fieldPath(t types.Type, name string, depth int) ([]int, bool) {
	if depth > 4 {
		return nil, false
	}
	if p, ok := t.Underlying().(*types.Pointer); ok {
		t = p.Elem()
	}
	st, ok := t.Underlying().(*types.Struct)
	if !ok {
		return nil, false
	}
	for i := 0; i < st.NumFields(); i++ {
		if st.Field(i).Name() == name {
			return []int{i}, true
		}
	}
	for i := 0; i < st.NumFields(); i++ {
		f := st.Field(i)
		if f.Embedded() {
			if p, ok := fieldPath(f.Type(), name, depth+1); ok {
				return append([]int{i}, p...), true
			}
		}
	}
	return nil, false
}

func (c *EvalCtx) selector(x *ast.SelectorExpr) Term {
	// package-qualified spec constants, e.g. fs.ErrNotExist
	if id, ok := x.X.(*ast.Ident); ok {
		if _, isVar := c.vars[id.Name]; !isVar {
			if k, ok := c.u.eng.specConsts[id.Name+"."+x.Sel.Name]; ok {
				return k
			}
			if g := c.u.eng.lookupGlobal(c.pkg, id.Name, x.Sel.Name); g != nil {
				return c.loadGlobal(g)
			}
		}
	}
	v := c.eval(x.X)
	return c.selectField(v, x.Sel.Name, exprString(x))
}

func (c *EvalCtx) selectField(v Term, name, what string) Term {
	if v.T == nil {
		c.fail("cannot select %s: no Go type known for the operand", what)
	}
	var cur = v
	t := v.T
	path, ok := fieldPath(unwrapRef(t), name, 0)
	if !ok {
		c.fail("no field %s in %s (%s)", name, types.TypeString(unwrapRef(t), nil), what)
	}
	for _, i := range path {
		cur = c.step(cur, i)
	}
	return cur
}

func unwrapRef(t types.Type) types.Type {
	if r, ok := t.(structRefType); ok {
		return r.Type
	}
	return t
}

// step selects field i of the struct denoted by v (pointer, struct reference or struct value).
func (c *EvalCtx) step(v Term, i int) Term {
	t := v.T
	if r, ok := t.(structRefType); ok {
		return c.fieldOfRef(mk(v.S, SInt), r.Type, i)
	}
	if p, ok := t.Underlying().(*types.Pointer); ok {
		return c.fieldOfRef(mk(v.S, SInt), p.Elem(), i)
	}
	if _, ok := t.Underlying().(*types.Struct); ok {
		return c.u.structField(v, t, i)
	}
	c.fail("field selection on non-struct %s", types.TypeString(t, nil))
	return Term{}
}

func (c *EvalCtx) fieldOfRef(r Term, structT types.Type, i int) Term {
	s := structT.Underlying().(*types.Struct)
	ft := s.Field(i).Type()
	if _, ok := isStruct(ft); ok {
		sr := c.u.subRef(structT, i, r)
		return mkT(sr.S, SInt, refOf(ft))
	}
	comp, cs, _ := c.u.fieldComp(structT, i)
	v := c.u.loadLoc(c.st, Loc{Kind: 1, Comp: comp, CSort: cs, Ref: r, T: ft})
	c.closed(v, ft)
	return v
}

// closed: a reference read from the heap in some state was allocated no later than that state
// (added as a side fact when the term has no bound variable).
func (c *EvalCtx) closed(v Term, t types.Type) {
	if c.st == nil || c.st.scratch || c.mentionsBound(v) {
		return
	}
	switch t.Underlying().(type) {
	case *types.Pointer, *types.Map, *types.Chan:
		c.side = append(c.side, le(app("own", SInt, v), c.st.alloc))
	case *types.Slice:
		c.side = append(c.side, le(app("own", SInt, app("sbase", SInt, v)), c.st.alloc))
		// a slice value held in memory is a slice: 0 <= len <= cap
		c.side = append(c.side, c.u.typeFacts(v, t))
	}
}

func (c *EvalCtx) addrOf(e ast.Expr) Term {
	v := c.eval(e)
	if r, ok := v.T.(structRefType); ok {
		return mkT(v.S, SInt, types.NewPointer(r.Type))
	}
	c.fail("& of non-struct lvalue %s", exprString(e))
	return Term{}
}

func (c *EvalCtx) deref(p Term) Term {
	if p.T == nil {
		c.fail("deref of untyped term")
	}
	pt, ok := p.T.Underlying().(*types.Pointer)
	if !ok {
		c.fail("deref of non-pointer")
	}
	if _, ok := isStruct(pt.Elem()); ok {
		return mkT(p.S, SInt, refOf(pt.Elem()))
	}
	if strings.HasPrefix(p.S, "(fa_") && strings.HasSuffix(p.S, ")") {
		// the address of a field (x.f taken with &): the pointee is that field
		if i := strings.Index(p.S, " "); i > 0 {
			comp := p.S[len("(fa_"):i]
			ref := mk(p.S[i+1:len(p.S)-1], SInt)
			return c.u.loadLoc(c.st, Loc{Kind: 1, Comp: comp, CSort: arraySort(SInt, c.u.sortOf(pt.Elem())), Ref: ref, T: pt.Elem()})
		}
	}
	comp, cs := c.u.cellComp(pt.Elem())
	return c.u.loadLoc(c.st, Loc{Kind: 1, Comp: comp, CSort: cs, Ref: p, T: pt.Elem()})
}

func (c *EvalCtx) loadGlobal(g *globalInfo) Term {
	ref := c.u.globalRef(g.g)
	elem := g.g.Type().(*types.Pointer).Elem()
	if _, ok := isStruct(elem); ok {
		return mkT(ref.S, SInt, refOf(elem))
	}
	comp, cs := c.u.cellComp(elem)
	v := c.u.loadLoc(c.st, Loc{Kind: 1, Comp: comp, CSort: cs, Ref: ref, T: elem})
	if isErrorSentinel(g.g) && !c.mentionsBound(v) {
		c.side = append(c.side, not(eq(v, intLit(0))))
	}
	return v
}

// isErrorSentinel: exported package-level error values such as fs.ErrNotExist, filepath.SkipDir,
// cdi.ErrStopScan are created once by errors.New and never nil (assumed for variables named Err*/Skip*).
func isErrorSentinel(g *ssa.Global) bool {
	pt, ok := g.Type().(*types.Pointer)
	if !ok {
		return false
	}
	if it, ok := pt.Elem().Underlying().(*types.Interface); !ok || it.NumMethods() != 1 {
		return false
	}
	n := g.Name()
	return strings.HasPrefix(n, "Err") || strings.HasPrefix(n, "Skip")
}

func exprString(e ast.Expr) string {
	switch x := e.(type) {
	case *ast.Ident:
		return strings.ReplaceAll(strings.ReplaceAll(x.Name, "__h_", "#"), "__D_", "$")
	case *ast.SelectorExpr:
		return exprString(x.X) + "." + x.Sel.Name
	case *ast.IndexExpr:
		return exprString(x.X) + "[" + exprString(x.Index) + "]"
	case *ast.CallExpr:
		var as []string
		for _, a := range x.Args {
			as = append(as, exprString(a))
		}
		return exprString(x.Fun) + "(" + strings.Join(as, ", ") + ")"
	case *ast.BasicLit:
		return x.Value
	case *ast.BinaryExpr:
		return exprString(x.X) + " " + x.Op.String() + " " + exprString(x.Y)
	case *ast.UnaryExpr:
		return x.Op.String() + exprString(x.X)
	case *ast.ParenExpr:
		return "(" + exprString(x.X) + ")"
	case *ast.StarExpr:
		return "*" + exprString(x.X)
	case *ast.SliceExpr:
		lo, hi := "", ""
		if x.Low != nil {
			lo = exprString(x.Low)
		}
		if x.High != nil {
			hi = exprString(x.High)
		}
		return exprString(x.X) + "[" + lo + ":" + hi + "]"
	}
	return fmt.Sprintf("%T", e)
}

func (u *Unit) reveals(name string) bool {
	if u.contract == nil {
		return false
	}
	for _, r := range u.contract.Reveals {
		if r == name {
			return true
		}
	}
	return false
}
