package main

import (
	"fmt"
	"go/types"
	"strings"
)

// typeNames gives every Go type that occurs a short, stable, SMT-safe name.
type typeNames struct {
	byType map[string]string // types.TypeString -> short
	used   map[string]string // short -> types.TypeString
}

func newTypeNames() *typeNames {
	return &typeNames{byType: map[string]string{}, used: map[string]string{}}
}

func sanitize(s string) string {
	var b strings.Builder
	for _, c := range s {
		switch {
		case c >= 'a' && c <= 'z', c >= 'A' && c <= 'Z', c >= '0' && c <= '9', c == '_':
			b.WriteRune(c)
		default:
			b.WriteRune('_')
		}
	}
	return b.String()
}

func (tn *typeNames) mangle(t types.Type) string {
	key := types.TypeString(t, nil)
	if s, ok := tn.byType[key]; ok {
		return s
	}
	var short string
	switch x := t.(type) {
	case *types.Named:
		obj := x.Obj()
		if obj.Pkg() != nil {
			short = obj.Pkg().Name() + "_" + obj.Name()
		} else {
			short = obj.Name()
		}
	case *types.Alias:
		return tn.mangle(types.Unalias(t))
	case *types.Pointer:
		short = "P_" + tn.mangle(x.Elem())
	case *types.Slice:
		short = "L_" + tn.mangle(x.Elem())
	case *types.Array:
		short = fmt.Sprintf("A%d_%s", x.Len(), tn.mangle(x.Elem()))
	case *types.Map:
		short = "M_" + tn.mangle(x.Key()) + "_" + tn.mangle(x.Elem())
	case *types.Basic:
		short = sanitize(x.Name())
	case *types.Struct:
		if x.NumFields() == 0 {
			short = "unit"
		} else {
			short = "anon_" + sanitize(key)
		}
	case *types.Interface:
		if x.NumMethods() == 0 {
			short = "any"
		} else {
			short = "iface_" + sanitize(key)
		}
	case *types.Signature:
		short = "fn_" + sanitize(key)
	case *types.Chan:
		short = "chan_" + tn.mangle(x.Elem())
	default:
		short = sanitize(key)
	}
	base := short
	for i := 2; ; i++ {
		if prev, ok := tn.used[short]; !ok || prev == key {
			break
		}
		short = fmt.Sprintf("%s_%d", base, i)
	}
	tn.used[short] = key
	tn.byType[key] = short
	return short
}

func isStruct(t types.Type) (*types.Struct, bool) {
	s, ok := t.Underlying().(*types.Struct)
	return s, ok
}

func isPointer(t types.Type) (*types.Pointer, bool) {
	p, ok := t.Underlying().(*types.Pointer)
	return p, ok
}

// refLike: values of this type are references (Int) whose allocation order matters.
func refLike(t types.Type) bool {
	switch t.Underlying().(type) {
	case *types.Pointer, *types.Map, *types.Chan:
		return true
	}
	return false
}

// sortOf maps a Go type to its SMT sort, declaring struct datatypes on demand.
func (u *Unit) sortOf(t types.Type) string {
	t = types.Unalias(t)
	switch x := t.Underlying().(type) {
	case *types.Basic:
		switch {
		case x.Info()&types.IsBoolean != 0:
			return SBool
		case x.Info()&types.IsString != 0:
			return SStr
		case x.Info()&types.IsInteger != 0:
			return SInt
		case x.Kind() == types.UnsafePointer, x.Kind() == types.UntypedNil:
			return SInt
		case x.Info()&types.IsFloat != 0:
			return "Real"
		}
		panic(unsupported("basic type " + x.Name()))
	case *types.Pointer, *types.Map, *types.Chan, *types.Signature, *types.Interface:
		return SInt
	case *types.Slice:
		return SSlice
	case *types.Struct:
		return u.structSort(t)
	case *types.Tuple:
		panic(unsupported("tuple sort"))
	case *types.Array:
		panic(unsupported("array by value " + types.TypeString(t, nil)))
	}
	panic(unsupported("type " + types.TypeString(t, nil)))
}

func (u *Unit) structSort(t types.Type) string {
	st := t.Underlying().(*types.Struct)
	name := "S_" + u.eng.tn.mangle(t)
	if u.pre.sortSet[name] {
		return name
	}
	// declare dependencies first
	var fields []string
	for i := 0; i < st.NumFields(); i++ {
		f := st.Field(i)
		if _, isArr := f.Type().Underlying().(*types.Array); isArr {
			// array-valued fields are not modelled (only padding/reserved fields of syscall structs occur)
			continue
		}
		fs := u.sortOf(f.Type())
		fields = append(fields, fmt.Sprintf("(%s_%s %s)", name, sanitize(f.Name()), fs))
	}
	decl := fmt.Sprintf("(declare-datatypes ((%s 0)) (((mk_%s %s))))", name, name, strings.Join(fields, " "))
	if len(fields) == 0 {
		decl = fmt.Sprintf("(declare-datatypes ((%s 0)) (((mk_%s))))", name, name)
	}
	u.pre.declSort(name, decl)
	return name
}

func (u *Unit) structField(v Term, t types.Type, i int) Term {
	st := t.Underlying().(*types.Struct)
	name := u.structSort(t)
	f := st.Field(i)
	r := app(fmt.Sprintf("%s_%s", name, sanitize(f.Name())), u.sortOf(f.Type()), v)
	r.T = f.Type()
	return r
}

func (u *Unit) mkStruct(t types.Type, fields []Term) Term {
	name := u.structSort(t)
	if len(fields) == 0 {
		return mkT("mk_"+name, name, t)
	}
	r := app("mk_"+name, name, fields...)
	r.T = t
	return r
}

// zero value of a Go type
func (u *Unit) zero(t types.Type) Term {
	t = types.Unalias(t)
	switch x := t.Underlying().(type) {
	case *types.Basic:
		switch {
		case x.Info()&types.IsBoolean != 0:
			return mkT("false", SBool, t)
		case x.Info()&types.IsString != 0:
			return mkT("sempty", SStr, t)
		default:
			return mkT("0", SInt, t)
		}
	case *types.Slice:
		return mkT("(mkslice 0 0 0 0)", SSlice, t)
	case *types.Struct:
		var fs []Term
		for i := 0; i < x.NumFields(); i++ {
			if _, isArr := x.Field(i).Type().Underlying().(*types.Array); isArr {
				continue
			}
			fs = append(fs, u.zero(x.Field(i).Type()))
		}
		return u.mkStruct(t, fs)
	}
	return mkT("0", SInt, t)
}

// typeRange returns the range fact for a value of integer type, or true.
func (u *Unit) typeFacts(v Term, t types.Type) Term {
	t = types.Unalias(t)
	switch x := t.Underlying().(type) {
	case *types.Basic:
		if x.Info()&types.IsInteger == 0 {
			return tTrue
		}
		lo, hi := intRange(x.Kind())
		return and(le(bigLit(lo), v), le(v, bigLit(hi)))
	case *types.Slice:
		return and(le(intLit(0), app("soff", SInt, v)), le(intLit(0), app("slen_", SInt, v)),
			le(app("slen_", SInt, v), app("scap", SInt, v)), le(app("scap", SInt, v), bigLit("9223372036854775807")),
			implies(eq(app("sbase", SInt, v), intLit(0)), eq(app("scap", SInt, v), intLit(0))))
	case *types.Pointer, *types.Map, *types.Chan:
		return le(intLit(0), v)
	}
	return tTrue
}

func intRange(k types.BasicKind) (string, string) {
	switch k {
	case types.Int8:
		return "-128", "127"
	case types.Int16:
		return "-32768", "32767"
	case types.Int32: // also rune
		return "-2147483648", "2147483647"
	case types.Int, types.Int64, types.UntypedInt, types.UntypedRune:
		return "-9223372036854775808", "9223372036854775807"
	case types.Uint8:
		return "0", "255"
	case types.Uint16:
		return "0", "65535"
	case types.Uint32:
		return "0", "4294967295"
	case types.Uint, types.Uint64, types.Uintptr:
		return "0", "18446744073709551615"
	}
	return "-9223372036854775808", "9223372036854775807"
}

type unsupportedErr struct{ msg string }

func (e unsupportedErr) Error() string { return "outside verified subset: " + e.msg }
func unsupported(msg string) error     { return unsupportedErr{msg} }
