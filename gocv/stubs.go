package main

import (
	"fmt"
	"go/types"
	"strings"

	"golang.org/x/tools/go/ssa"
)

// tableCall resolves a call through a function value by case analysis over the functions
// that can be its target (closed world over the repository: see funcCandidates).
func (u *Unit) tableCall(st *State, instr ssa.Instruction, common *ssa.CallCommon, fv Term, args []Term) ([]Term, bool) {
	sig := common.Signature()
	cands := u.eng.funcCandidates(sig)
	if len(cands) == 0 {
		return nil, false
	}
	var cs []*Contract
	for _, f := range cands {
		c := u.eng.contractFor(f)
		if c == nil || !c.Pure || len(f.FreeVars) > 0 {
			return nil, false
		}
		cs = append(cs, c)
	}
	resTypes := resultTypes(sig)
	var rs []Term
	for i, t := range resTypes {
		rs = append(rs, u.freshOf(st, fmt.Sprintf("r%d_dyn", i), t))
	}
	var ids []Term
	for i, f := range cands {
		c := cs[i]
		id := u.funcValue(f)
		ids = append(ids, eq(fv, id))
		name := funcPkgPath(f) + "." + funcKey(f)
		u.usedContracts[name] = true
		ctxOf := func() *EvalCtx {
			ctx := &EvalCtx{u: u, st: st, bound: map[string]bool{}, vars: map[string]Term{}}
			ctx.pkg = calleePkg(f)
			for j, p := range c.Params {
				a := args[j]
				a.T = f.Params[j].Type()
				ctx.vars[p] = a
			}
			return ctx
		}
		for _, r := range c.Requires {
			ctx := ctxOf()
			g := ctx.eval(r.Expr)
			u.oblige(st, "pre", instr.Pos(), implies(eq(fv, id), g), shortName(name)+" (via function value): "+r.Text, nil)
		}
		for _, e := range c.Ensures {
			ctx := ctxOf()
			for j, n := range c.Results {
				t := rs[j]
				t.T = resTypes[j]
				ctx.vars[n] = t
			}
			g := ctx.eval(e.Expr)
			for _, s := range ctx.side {
				st.assume(s)
			}
			st.assume(implies(eq(fv, id), g))
		}
	}
	st.assume(or(ids...))
	u.note(fmt.Sprintf("%s: call through a %s value resolved over the %d repository functions of that signature whose value is taken", u.key, types.TypeString(common.Value.Type(), u.eng.qual), len(cands)))
	return rs, true
}

// initGhost declares the ghost variables of the contract with their initial values.
func (u *Unit) initGhost(st *State) {
	// ghost globals: shared by all functions, only changed by ghost updates
	for _, gv := range u.eng.contracts.GhostGlobals {
		sort := ghostSort(gv.Sort)
		if sort == "" {
			panic(evalErr{"ghostglobal " + gv.Name + ": unknown sort " + gv.Sort})
		}
		n := "gg_" + sanitize(gv.Name) + "!0"
		u.pre.declConst(n, sort)
		t := mk(n, sort)
		if gv.Sort == "int" {
			t.T = types.Typ[types.Int]
		}
		st.ghost[gv.Name] = t
	}
	if u.contract == nil {
		return
	}
	for _, gv := range u.contract.GhostVars {
		sort := map[string]string{"int": SInt, "bool": SBool, "string": SStr, "intarray": arraySort(SInt, SInt),
			"strarray": arraySort(SInt, SStr), "boolarray": arraySort(SInt, SBool)}[gv.Sort]
		if sort == "" {
			panic(evalErr{"ghostvar " + gv.Name + ": unknown sort " + gv.Sort})
		}
		n := "ghost_" + sanitize(gv.Name)
		u.pre.declConst(n, sort)
		t := mk(n, sort)
		if gv.Sort == "int" {
			t.T = types.Typ[types.Int]
		}
		st.ghost[gv.Name] = t
		if gv.Init != nil {
			ctx := u.newCtx(st, nil)
			st.assume(eq(t, ctx.eval(gv.Init)))
		}
	}
}

// ghostAt executes the ghost updates attached to a program point.
func (u *Unit) ghostAt(st *State, b *ssa.BasicBlock, where string) {}

func (u *Unit) ghostUpdates(st *State, where string, ctx *EvalCtx) {
	if u.contract == nil {
		return
	}
	for _, g := range u.contract.Ghosts {
		if g.At != where {
			continue
		}
		cur, ok := st.ghost[g.Var]
		if !ok {
			panic(evalErr{"ghost update of undeclared variable " + g.Var})
		}
		v := ctx.eval(g.Expr)
		nv := u.define(st, "ghost_"+g.Var, mkT(v.S, cur.Sort, cur.T))
		nv.T = cur.T
		st.ghost[g.Var] = nv
		// a ghost array updated at one index: the (valid) fact that it agrees with its previous value
		// elsewhere, triggered by reads of the previous value, so that invariants stated over the old
		// array produce the corresponding reads of the new one
		if strings.HasPrefix(cur.Sort, "(Array Int ") {
			if idx, ok := storeIndex(v.S, cur.S); ok {
				st.assume(mk(fmt.Sprintf("(forall ((j!g Int)) (! (=> (not (= j!g %s)) (= (select %s j!g) (select %s j!g))) :pattern ((select %s j!g)) :pattern ((select %s j!g))))", idx, nv.S, cur.S, cur.S, nv.S), SBool))
			}
		}
	}
}

// storeIndex recognises "(store <arr> <idx> <val>)" and "(ite <c> (store <arr> <idx> <val>) <arr>)".
func storeIndex(s, arr string) (string, bool) {
	if strings.HasPrefix(s, "(ite ") {
		if i := strings.Index(s, "(store "+arr+" "); i > 0 && strings.HasSuffix(s, " "+arr+")") {
			s = s[i : len(s)-len(arr)-2]
		}
	}
	pre := "(store " + arr + " "
	if !strings.HasPrefix(s, pre) {
		return "", false
	}
	rest := s[len(pre):]
	depth := 0
	for i, c := range rest {
		switch c {
		case '(':
			depth++
		case ')':
			depth--
		case ' ':
			if depth == 0 {
				return rest[:i], true
			}
		}
	}
	return "", false
}

// dynCall handles a call through a function value whose possible targets include closures or
// non-pure functions: every precondition of every possible target that can be stated over the call's
// arguments is required (conservatively, whichever target it is), the effects are the union.
func (u *Unit) dynCall(st *State, instr ssa.Instruction, common *ssa.CallCommon, args []Term) ([]Term, bool) {
	sig := common.Signature()
	var targets []*ssa.Function
	for _, f := range u.eng.funcCandidates(sig) {
		targets = append(targets, f)
	}
	// bound method values: c.refresh passed as func() error
	for f := range u.eng.boundTargets(sig) {
		targets = append(targets, f)
	}
	if len(targets) == 0 {
		return nil, false
	}
	allPure := true
	allHaveMods := true
	anyMods := false
	var modLocs []frameLoc
	var keep []string
	first := true
	for _, f := range targets {
		c := u.eng.contractFor(f)
		name := funcPkgPath(f) + "." + funcKey(f)
		if c == nil {
			return nil, false
		}
		u.usedContracts[name] = true
		off := len(f.Params) - len(args) // bound methods: the receiver is not an argument
		for _, r := range c.Requires {
			ok := func() (ok bool) {
				defer func() {
					if rec := recover(); rec != nil {
						if _, isEval := rec.(evalErr); isEval {
							ok = false
							return
						}
						panic(rec)
					}
				}()
				ctx := &EvalCtx{u: u, st: st, bound: map[string]bool{}, vars: map[string]Term{}}
				ctx.pkg = calleePkg(f)
				for j := range args {
					if j+off < len(c.Params) {
						a := args[j]
						a.T = f.Params[j+off].Type()
						ctx.vars[c.Params[j+off]] = a
					}
				}
				g := ctx.eval(r.Expr)
				kind := "pre"
				if strings.Contains(r.Text, "excl") || strings.Contains(r.Text, "held") {
					kind = "lock"
				}
				u.oblige(st, kind, instr.Pos(), g, shortName(name)+" (possible target of the function value): "+r.Text, nil)
				return true
			}()
			if !ok {
				u.note(fmt.Sprintf("%s: precondition %q of possible call target %s mentions state not visible at the call through a function value; not checked there", u.key, r.Text, name))
			}
		}
		if !c.Pure && c.HasModifies {
			// a target with a declared frame: its locations, evaluated over the arguments
			allHaveMods = allHaveMods && true
			ctx := &EvalCtx{u: u, st: st, bound: map[string]bool{}, vars: map[string]Term{}}
			ctx.pkg = calleePkg(f)
			for j := range args {
				if j+off < len(c.Params) {
					a := args[j]
					a.T = f.Params[j+off].Type()
					ctx.vars[c.Params[j+off]] = a
				}
			}
			ok := func() (ok bool) {
				defer func() {
					if rec := recover(); rec != nil {
						if _, isEval := rec.(evalErr); isEval {
							ok = false
							return
						}
						panic(rec)
					}
				}()
				for _, m := range c.Modifies {
					modLocs = append(modLocs, ctx.lvalues(m.Text)...)
				}
				return true
			}()
			if !ok {
				allHaveMods = false
			}
			anyMods = true
			continue
		}
		if !c.Pure {
			allPure = false
			allHaveMods = false
			if len(c.Preserves) > 0 && !c.HasModifies {
				if first {
					keep = append([]string(nil), c.Preserves...)
				} else {
					var inter []string
					for _, a := range keep {
						for _, b := range c.Preserves {
							if a == b {
								inter = append(inter, a)
							}
						}
					}
					keep = inter
				}
			} else {
				keep = nil
			}
			first = false
		}
	}
	if allPure && anyMods && allHaveMods {
		for _, l := range modLocs {
			u.havocLoc(st, l, instr.Pos(), "function value")
		}
	} else if !allPure || anyMods {
		u.frameCallAll(st, instr.Pos(), "function value")
		if len(keep) > 0 {
			u.havocAllExcept(st, keep)
		} else {
			u.havocAll(st)
		}
	}
	u.advanceAlloc(st)
	var rs []Term
	for i, t := range resultTypes(sig) {
		rs = append(rs, u.freshOf(st, fmt.Sprintf("r%d_dyn", i), t))
	}
	u.note(fmt.Sprintf("%s: call through a %s value: preconditions of all %d possible targets required, effects over-approximated", u.key, types.TypeString(common.Value.Type(), u.eng.qual), len(targets)))
	return rs, true
}

// ---------- closures in the context of their parent ----------

// closureCtx describes how a closure is created in its parent: which parent cells its free variables
// are, and which of the captured cells hold closures that are assigned exactly once.
type closureCtx struct {
	mk     *ssa.MakeClosure
	cellOf map[ssa.Value]Term             // parent cell (Alloc) -> reference term in this unit
	heldFn map[ssa.Value]*ssa.MakeClosure // parent cell -> the closure stored in it (single assignment)
	byName map[string]ssa.Value           // parent variable name -> cell
}

func (u *Unit) initClosureCtx(st *State) {
	fn := u.fn
	parent := fn.Parent()
	if parent == nil {
		return
	}
	cc := &closureCtx{cellOf: map[ssa.Value]Term{}, heldFn: map[ssa.Value]*ssa.MakeClosure{}, byName: map[string]ssa.Value{}}
	for _, b := range parent.Blocks {
		for _, ins := range b.Instrs {
			if mc, ok := ins.(*ssa.MakeClosure); ok && mc.Fn == ssa.Value(fn) {
				if cc.mk != nil {
					return // created at several sites: no context
				}
				cc.mk = mc
			}
		}
	}
	if cc.mk == nil {
		return
	}
	for i, fv := range fn.FreeVars {
		cc.cellOf[cc.mk.Bindings[i]] = st.vals[fv]
	}
	// every cell captured by any closure of the parent, by source name; cells that hold a closure
	captured := map[ssa.Value]bool{}
	for _, b := range parent.Blocks {
		for _, ins := range b.Instrs {
			if mc, ok := ins.(*ssa.MakeClosure); ok {
				for _, bd := range mc.Bindings {
					captured[bd] = true
				}
			}
		}
	}
	for cell := range captured {
		al, ok := cell.(*ssa.Alloc)
		if !ok {
			continue
		}
		if al.Comment != "" {
			cc.byName[al.Comment] = al
		}
		var stores []*ssa.Store
		if refs := al.Referrers(); refs != nil {
			for _, r := range *refs {
				if s, ok := r.(*ssa.Store); ok && s.Addr == ssa.Value(al) {
					stores = append(stores, s)
				}
			}
		}
		if len(stores) == 1 {
			v := stores[0].Val
			if ct, ok := v.(*ssa.ChangeType); ok {
				v = ct.X
			}
			if mc2, ok := v.(*ssa.MakeClosure); ok {
				cc.heldFn[al] = mc2
			}
		}
	}
	// cells captured by sibling closures but not by this one: stable, distinct references
	for cell := range captured {
		if _, ok := cc.cellOf[cell]; ok {
			continue
		}
		n := "pcell_" + sanitize(cell.Name())
		u.pre.declConst(n, SInt)
		t := mkT(n, SInt, cell.Type())
		u.pre.axiom(fmt.Sprintf("(and (< 0 %s) (<= (own %s) alloc!0) (= (rkind %s) 0))", n, n, n))
		for other, ot := range cc.cellOf {
			if types.Identical(other.Type(), cell.Type()) {
				st.assume(not(eq(t, ot)))
			}
		}
		cc.cellOf[cell] = t
	}
	u.closure = cc
}

// cellTerm returns the reference of a parent cell as seen from this closure unit.
func (u *Unit) parentCellLoc(cell ssa.Value) (Loc, bool) {
	if u.closure == nil {
		return Loc{}, false
	}
	t, ok := u.closure.cellOf[cell]
	if !ok {
		return Loc{}, false
	}
	pt, ok := cell.Type().(*types.Pointer)
	if !ok {
		return Loc{}, false
	}
	if _, isS := isStruct(pt.Elem()); isS {
		return Loc{}, false
	}
	comp, cs := u.cellComp(pt.Elem())
	return Loc{Kind: 1, Comp: comp, CSort: cs, Ref: t, T: pt.Elem()}, true
}

// resolveCellCall: a call of the value loaded from a captured cell that holds a single-assignment closure.
func (u *Unit) resolveCellCall(common *ssa.CallCommon) (*ssa.MakeClosure, bool) {
	if u.closure == nil {
		return nil, false
	}
	ld, ok := common.Value.(*ssa.UnOp)
	if !ok {
		return nil, false
	}
	fv, ok := ld.X.(*ssa.FreeVar)
	if !ok {
		return nil, false
	}
	for i, f := range u.fn.FreeVars {
		if f == fv {
			mc2, ok := u.closure.heldFn[u.closure.mk.Bindings[i]]
			return mc2, ok
		}
	}
	return nil, false
}

func ghostSort(s string) string {
	return map[string]string{"int": SInt, "bool": SBool, "string": SStr, "intarray": arraySort(SInt, SInt),
		"strarray": arraySort(SInt, SStr), "boolarray": arraySort(SInt, SBool),
		"strintmap": arraySort(SStr, SInt), "strrefmap": arraySort(SStr, SInt), "strboolmap": arraySort(SStr, SBool)}[s]
}

// ---------- private cells ----------
// The cell of a local variable whose address never leaves the function and its own closures cannot be
// reached, hence not written, by any other code. Such cells keep their content across calls whose effect is
// otherwise unknown — except the cells that a closure handed to the callee itself assigns.

func cellIsPrivate(al *ssa.Alloc) bool {
	var check func(v ssa.Value, depth int) bool
	check = func(v ssa.Value, depth int) bool {
		refs := v.Referrers()
		if refs == nil || depth > 3 {
			return refs != nil
		}
		for _, r := range *refs {
			switch x := r.(type) {
			case *ssa.DebugRef:
			case *ssa.UnOp:
			case *ssa.Store:
				if x.Addr != v {
					return false // the address itself is stored somewhere
				}
			case *ssa.MakeClosure:
				fn := x.Fn.(*ssa.Function)
				for i, b := range x.Bindings {
					if b == v {
						if !check(fn.FreeVars[i], depth+1) {
							return false
						}
					}
				}
			default:
				return false
			}
		}
		return true
	}
	return check(al, 0)
}

// closureStores: the captured cells (of the closure's parent) that a closure, or a closure nested in it, assigns.
func closureStores(fn *ssa.Function, mcBindings []ssa.Value, out map[ssa.Value]bool) {
	for i, fv := range fn.FreeVars {
		refs := fv.Referrers()
		if refs == nil {
			continue
		}
		for _, r := range *refs {
			switch x := r.(type) {
			case *ssa.Store:
				if x.Addr == ssa.Value(fv) {
					out[mcBindings[i]] = true
				}
			case *ssa.MakeClosure:
				inner := map[ssa.Value]bool{}
				closureStores(x.Fn.(*ssa.Function), x.Bindings, inner)
				if inner[fv] {
					out[mcBindings[i]] = true
				}
			}
		}
	}
}

type savedCell struct {
	loc Loc
	val Term
}

// savePrivateCells records the content of the private cells visible in this unit before a whole-heap havoc.
func (u *Unit) savePrivateCells(st *State, passed *ssa.MakeClosure) []savedCell {
	written := map[ssa.Value]bool{}
	if passed != nil {
		closureStores(passed.Fn.(*ssa.Function), passed.Bindings, written)
	}
	var out []savedCell
	add := func(cell ssa.Value, l Loc) {
		out = append(out, savedCell{l, u.define(st, "kept", u.loadLoc(st, l))})
	}
	// own local cells
	for _, b := range u.fn.Blocks {
		for _, ins := range b.Instrs {
			al, ok := ins.(*ssa.Alloc)
			if !ok || written[al] {
				continue
			}
			l, has := st.locs[al]
			if !has || !cellIsPrivate(al) {
				continue
			}
			add(al, l)
		}
	}
	// captured cells of the parent (this unit is a closure)
	if u.closure != nil {
		for i, fv := range u.fn.FreeVars {
			cell, ok := u.closure.mk.Bindings[i].(*ssa.Alloc)
			if !ok || !cellIsPrivate(cell) {
				continue
			}
			if passed != nil {
				// the closure handed on may assign cells of this unit's parent through its own bindings
				w := map[ssa.Value]bool{}
				closureStores(passed.Fn.(*ssa.Function), passed.Bindings, w)
				if w[fv] {
					continue
				}
			}
			if l, ok := st.locs[fv]; ok {
				add(cell, l)
			}
		}
	}
	return out
}

func (u *Unit) restorePrivateCells(st *State, saved []savedCell) {
	for _, sc := range saved {
		cur := u.loadLoc(st, sc.loc)
		st.assume(eq(cur, sc.val))
	}
	if len(saved) > 0 {
		u.note("private cells (local variables whose address stays inside the function and its closures) keep their content across calls with unknown effect")
	}
}
