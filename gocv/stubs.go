package main

import (
	"fmt"
	"go/types"
	"strings"

	"golang.org/x/tools/go/ssa"
)

// tableCall resolves a call through a function value by case analysis over the functions
// that can be its target (closed world over the repository: see funcCandidates).
func (u *Unit) tableCall(st *State, instr ssa.Instruction, common *ssa.CallCommon, fv Term, args []Term) ([]Term, bool) {
	sig := common.Signature()
	cands := u.eng.funcCandidates(sig)
	if len(cands) == 0 {
		return nil, false
	}
	var cs []*Contract
	for _, f := range cands {
		c := u.eng.contractFor(f)
		if c == nil || !c.Pure || len(f.FreeVars) > 0 {
			return nil, false
		}
		cs = append(cs, c)
	}
	resTypes := resultTypes(sig)
	var rs []Term
	for i, t := range resTypes {
		rs = append(rs, u.freshOf(st, fmt.Sprintf("r%d_dyn", i), t))
	}
	var ids []Term
	for i, f := range cands {
		c := cs[i]
		id := u.funcValue(f)
		ids = append(ids, eq(fv, id))
		name := funcPkgPath(f) + "." + funcKey(f)
		u.usedContracts[name] = true
		ctxOf := func() *EvalCtx {
			ctx := &EvalCtx{u: u, st: st, bound: map[string]bool{}, vars: map[string]Term{}}
			ctx.pkg = calleePkg(f)
			for j, p := range c.Params {
				a := args[j]
				a.T = f.Params[j].Type()
				ctx.vars[p] = a
			}
			return ctx
		}
		for _, r := range c.Requires {
			ctx := ctxOf()
			g := ctx.eval(r.Expr)
			u.oblige(st, "pre", instr.Pos(), implies(eq(fv, id), g), shortName(name)+" (via function value): "+r.Text, nil)
		}
		for _, e := range c.Ensures {
			ctx := ctxOf()
			for j, n := range c.Results {
				t := rs[j]
				t.T = resTypes[j]
				ctx.vars[n] = t
			}
			g := ctx.eval(e.Expr)
			for _, s := range ctx.side {
				st.assume(s)
			}
			st.assume(implies(eq(fv, id), g))
		}
	}
	st.assume(or(ids...))
	u.note(fmt.Sprintf("%s: call through a %s value resolved over the %d repository functions of that signature whose value is taken", u.key, types.TypeString(common.Value.Type(), u.eng.qual), len(cands)))
	return rs, true
}

// initGhost declares the ghost variables of the contract with their initial values.
func (u *Unit) initGhost(st *State) {
	if u.contract == nil {
		return
	}
	for _, gv := range u.contract.GhostVars {
		sort := map[string]string{"int": SInt, "bool": SBool, "string": SStr, "intarray": arraySort(SInt, SInt),
			"strarray": arraySort(SInt, SStr), "boolarray": arraySort(SInt, SBool)}[gv.Sort]
		if sort == "" {
			panic(evalErr{"ghostvar " + gv.Name + ": unknown sort " + gv.Sort})
		}
		n := "ghost_" + sanitize(gv.Name)
		u.pre.declConst(n, sort)
		t := mk(n, sort)
		if gv.Sort == "int" {
			t.T = types.Typ[types.Int]
		}
		st.ghost[gv.Name] = t
		if gv.Init != nil {
			ctx := u.newCtx(st, nil)
			st.assume(eq(t, ctx.eval(gv.Init)))
		}
	}
}

// ghostAt executes the ghost updates attached to a program point.
func (u *Unit) ghostAt(st *State, b *ssa.BasicBlock, where string) {}

func (u *Unit) ghostUpdates(st *State, where string, ctx *EvalCtx) {
	if u.contract == nil {
		return
	}
	for _, g := range u.contract.Ghosts {
		if g.At != where {
			continue
		}
		cur, ok := st.ghost[g.Var]
		if !ok {
			panic(evalErr{"ghost update of undeclared variable " + g.Var})
		}
		v := ctx.eval(g.Expr)
		nv := u.define(st, "ghost_"+g.Var, mkT(v.S, cur.Sort, cur.T))
		nv.T = cur.T
		st.ghost[g.Var] = nv
	}
}

// dynCall handles a call through a function value whose possible targets include closures or
// non-pure functions: every precondition of every possible target that can be stated over the call's
// arguments is required (conservatively, whichever target it is), the effects are the union.
func (u *Unit) dynCall(st *State, instr ssa.Instruction, common *ssa.CallCommon, args []Term) ([]Term, bool) {
	sig := common.Signature()
	var targets []*ssa.Function
	for _, f := range u.eng.funcCandidates(sig) {
		targets = append(targets, f)
	}
	// bound method values: c.refresh passed as func() error
	for f := range u.eng.boundTargets(sig) {
		targets = append(targets, f)
	}
	if len(targets) == 0 {
		return nil, false
	}
	allPure := true
	var keep []string
	first := true
	for _, f := range targets {
		c := u.eng.contractFor(f)
		name := funcPkgPath(f) + "." + funcKey(f)
		if c == nil {
			return nil, false
		}
		u.usedContracts[name] = true
		off := len(f.Params) - len(args) // bound methods: the receiver is not an argument
		for _, r := range c.Requires {
			ok := func() (ok bool) {
				defer func() {
					if rec := recover(); rec != nil {
						if _, isEval := rec.(evalErr); isEval {
							ok = false
							return
						}
						panic(rec)
					}
				}()
				ctx := &EvalCtx{u: u, st: st, bound: map[string]bool{}, vars: map[string]Term{}}
				ctx.pkg = calleePkg(f)
				for j := range args {
					if j+off < len(c.Params) {
						a := args[j]
						a.T = f.Params[j+off].Type()
						ctx.vars[c.Params[j+off]] = a
					}
				}
				g := ctx.eval(r.Expr)
				kind := "pre"
				if strings.Contains(r.Text, "excl") || strings.Contains(r.Text, "held") {
					kind = "lock"
				}
				u.oblige(st, kind, instr.Pos(), g, shortName(name)+" (possible target of the function value): "+r.Text, nil)
				return true
			}()
			if !ok {
				u.note(fmt.Sprintf("%s: precondition %q of possible call target %s mentions state not visible at the call through a function value; not checked there", u.key, r.Text, name))
			}
		}
		if !c.Pure {
			allPure = false
			if len(c.Preserves) > 0 && !c.HasModifies {
				if first {
					keep = append([]string(nil), c.Preserves...)
				} else {
					var inter []string
					for _, a := range keep {
						for _, b := range c.Preserves {
							if a == b {
								inter = append(inter, a)
							}
						}
					}
					keep = inter
				}
			} else {
				keep = nil
			}
			first = false
		}
	}
	if !allPure {
		u.frameCallAll(st, instr.Pos(), "function value")
		if len(keep) > 0 {
			u.havocAllExcept(st, keep)
		} else {
			u.havocAll(st)
		}
	}
	u.advanceAlloc(st)
	var rs []Term
	for i, t := range resultTypes(sig) {
		rs = append(rs, u.freshOf(st, fmt.Sprintf("r%d_dyn", i), t))
	}
	u.note(fmt.Sprintf("%s: call through a %s value: preconditions of all %d possible targets required, effects over-approximated", u.key, types.TypeString(common.Value.Type(), u.eng.qual), len(targets)))
	return rs, true
}
