package main

import (
	"go/token"
	"go/types"

	"golang.org/x/tools/go/ssa"
)

func (u *Unit) tableCall(st *State, instr ssa.Instruction, common *ssa.CallCommon, fv Term, args []Term) ([]Term, bool) {
	return nil, false
}
func (u *Unit) lockEffects(st *State, c *Contract, name string, args []Term, pos token.Pos) {}
func (u *Unit) guardedAccess(st *State, x *ssa.FieldAddr, structT types.Type, field int, r Term) {}
func (u *Unit) guardedMapAccess(st *State, m ssa.Value, pos token.Pos, write bool)                {}
func (u *Unit) initGhost(st *State)                                                               {}
func (u *Unit) ghostAt(st *State, b *ssa.BasicBlock, where string)                                {}
func (u *Unit) checkLockBalance(st *State, pos token.Pos)                                         {}
