package main

import (
	"fmt"
	"go/constant"
	"go/token"
	"go/types"
	"strings"

	"golang.org/x/tools/go/ssa"
)

// ---------- values ----------

func (u *Unit) strLit(s string) Term {
	if s == "" {
		return mkT("sempty", SStr, types.Typ[types.String])
	}
	if u.strLits == nil {
		u.strLits = map[string]string{}
	}
	if n, ok := u.strLits[s]; ok {
		return mkT(n, SStr, types.Typ[types.String])
	}
	n := fmt.Sprintf("lit!%d", len(u.strLits)+1)
	u.strLits[s] = n
	u.pre.declConst(n, SStr)
	var facts []string
	facts = append(facts, fmt.Sprintf("(= (slen %s) %d)", n, len(s)))
	if len(s) <= 64 {
		for i := 0; i < len(s); i++ {
			facts = append(facts, fmt.Sprintf("(= (sat %s %d) %d)", n, i, s[i]))
		}
	}
	u.pre.axiomFor(n, "(and "+strings.Join(facts, " ")+")")
	return mkT(n, SStr, types.Typ[types.String])
}

func (u *Unit) constTerm(c *ssa.Const) Term {
	t := c.Type()
	if c.Value == nil {
		return u.zero(t)
	}
	switch c.Value.Kind() {
	case constant.Bool:
		return mkT(fmt.Sprintf("%v", constant.BoolVal(c.Value)), SBool, t)
	case constant.String:
		r := u.strLit(constant.StringVal(c.Value))
		r.T = t
		return r
	case constant.Int:
		r := bigLit(c.Value.ExactString())
		r.T = t
		return r
	}
	panic(unsupported("constant " + c.String()))
}

func (u *Unit) val(st *State, v ssa.Value) Term {
	switch x := v.(type) {
	case *ssa.Const:
		return u.constTerm(x)
	case *ssa.Function:
		return u.funcValue(x)
	case *ssa.Global:
		return u.globalRef(x)
	case *ssa.Builtin:
		panic(unsupported("builtin as value"))
	}
	if t, ok := st.vals[v]; ok {
		return t
	}
	panic(unsupported(fmt.Sprintf("value %s (%T) has no term in %s", v.Name(), v, u.key)))
}

func (u *Unit) funcValue(f *ssa.Function) Term {
	n := "fn_" + sanitize(f.String())
	if !u.pre.funSet[n] {
		u.pre.declConst(n, SInt)
		id := u.eng.funcID(f.String())
		u.pre.axiom(fmt.Sprintf("(= %s %d)", n, id))
	}
	return mkT(n, SInt, f.Type())
}

func (u *Unit) globalRef(g *ssa.Global) Term {
	n := "glob_" + sanitize(g.String())
	if !u.pre.funSet[n] {
		u.pre.declConst(n, SInt)
		id := u.eng.globalID(g.String())
		// globals live at fixed, distinct, existing references
		u.pre.axiom(fmt.Sprintf("(and (= %s %d) (= (own %s) %s) (= (rkind %s) 0))", n, id, n, n, n))
	}
	return mkT(n, SInt, g.Type())
}

// locOf returns the memory location a pointer value designates.
func (u *Unit) locOf(st *State, p ssa.Value) Loc {
	if l, ok := st.locs[p]; ok {
		return l
	}
	pt, ok := isPointer(p.Type())
	if !ok {
		panic(unsupported("locOf non-pointer"))
	}
	elem := pt.Elem()
	if _, ok := isStruct(elem); ok {
		panic(unsupported("locOf struct pointer"))
	}
	comp, cs := u.cellComp(elem)
	switch p.(type) {
	case *ssa.Parameter:
		u.note(fmt.Sprintf("%s: parameter %s of type %s is dereferenced and treated as a pointer to a stand-alone cell", u.key, p.Name(), p.Type()))
	}
	return Loc{Kind: 1, Comp: comp, CSort: cs, Ref: u.val(st, p), T: elem}
}

func (u *Unit) nilCheck(st *State, ref Term, pos token.Pos, what string) {
	u.oblige(st, "safety", pos, not(eq(ref, intLit(0))), "nil dereference: "+what, u.safetyTags())
	st.assume(not(eq(ref, intLit(0))))
}

func (u *Unit) safetyTags() []string { return []string{"C08"} }

// ---------- instruction semantics ----------

func (u *Unit) execInstr(st *State, ins ssa.Instruction) {
	u.noteLeaks(st, ins)
	switch x := ins.(type) {
	case *ssa.DebugRef:
		if obj, ok := x.Object().(*types.Var); ok && !x.IsAddr && !obj.IsField() {
			if st.dbg == nil {
				st.dbg = map[string]ssa.Value{}
			}
			st.dbg[obj.Name()] = x.X
		}
		return
	case *ssa.Alloc:
		u.execAlloc(st, x)
	case *ssa.BinOp:
		st.vals[x] = u.execBinOp(st, x)
	case *ssa.UnOp:
		u.execUnOp(st, x)
	case *ssa.Convert:
		st.vals[x] = u.execConvert(st, x)
	case *ssa.ChangeType:
		t := u.val(st, x.X)
		t.T = x.Type()
		st.vals[x] = t
		if l, ok := st.locs[x.X]; ok {
			st.locs[x] = l
		}
	case *ssa.ChangeInterface:
		t := u.val(st, x.X)
		t.T = x.Type()
		st.vals[x] = t
	case *ssa.MakeInterface:
		st.vals[x] = u.execMakeInterface(st, x)
	case *ssa.Slice:
		st.vals[x] = u.execSlice(st, x)
	case *ssa.FieldAddr:
		u.execFieldAddr(st, x)
	case *ssa.Field:
		v := u.val(st, x.X)
		st.vals[x] = u.structField(v, x.X.Type(), x.Field)
	case *ssa.IndexAddr:
		u.execIndexAddr(st, x)
	case *ssa.Index:
		u.execIndex(st, x)
	case *ssa.Lookup:
		u.execLookup(st, x)
	case *ssa.Store:
		u.execStore(st, x)
	case *ssa.MapUpdate:
		u.execMapUpdate(st, x)
	case *ssa.MakeMap:
		u.execMakeMap(st, x)
	case *ssa.MakeSlice:
		u.execMakeSlice(st, x)
	case *ssa.MakeClosure:
		u.execMakeClosure(st, x)
	case *ssa.Call:
		rs := u.execCall(st, x, &x.Call)
		u.bindResults(st, x, rs)
	case *ssa.Extract:
		tu, ok := st.tuples[x.Tuple]
		if !ok {
			panic(unsupported("extract from unknown tuple " + x.Tuple.Name()))
		}
		st.vals[x] = tu[x.Index]
	case *ssa.Range:
		u.execRange(st, x)
	case *ssa.Next:
		u.execNext(st, x)
	case *ssa.TypeAssert:
		u.execTypeAssert(st, x)
	case *ssa.Defer:
		st.defers = append(st.defers, x)
	case *ssa.RunDefers:
		u.runDefers(st)
	case *ssa.Go:
		u.execGo(st, x)
	case *ssa.Phi:
		panic("phi outside block start")
	case *ssa.Select:
		u.execSelect(st, x)
	case *ssa.Send:
		u.note(u.key + ": channel send is not modelled (no effect)")
	case *ssa.MakeChan:
		st.vals[x] = u.allocRef(st, "chan")
	default:
		panic(unsupported(fmt.Sprintf("instruction %T (%s)", ins, ins)))
	}
}

func (u *Unit) bindResults(st *State, v ssa.Value, rs []Term) {
	if tup, ok := v.Type().(*types.Tuple); ok {
		if tup.Len() == 0 {
			return
		}
		st.tuples[v] = rs
		return
	}
	if len(rs) == 1 {
		st.vals[v] = rs[0]
	}
}

func (u *Unit) execAlloc(st *State, x *ssa.Alloc) {
	elem := x.Type().(*types.Pointer).Elem()
	r := u.allocRef(st, "new_"+x.Comment)
	r.T = x.Type()
	st.vals[x] = r
	switch et := elem.Underlying().(type) {
	case *types.Struct:
		u.scatter(st, elem, r, u.zero(elem))
	case *types.Array:
		// backing array: elements zeroed
		_ = et
		u.initArray(st, r, et)
	default:
		comp, cs := u.cellComp(elem)
		l := Loc{Kind: 1, Comp: comp, CSort: cs, Ref: r, T: elem}
		u.storeLoc(st, l, u.zero(elem))
		st.locs[x] = l
	}
}

func (u *Unit) initArray(st *State, base Term, at *types.Array) {
	et := at.Elem()
	if _, ok := isStruct(et); ok {
		for i := int64(0); i < at.Len(); i++ {
			u.scatter(st, et, u.elemRef(et, base, intLit(i)), u.zero(et))
		}
		return
	}
	comp, cs := u.elemComp(et)
	for i := int64(0); i < at.Len() && i < 16; i++ {
		u.storeLoc(st, Loc{Kind: 2, Comp: comp, CSort: cs, Ref: base, Idx: intLit(i), T: et}, u.zero(et))
	}
}

func isUnsigned(t types.Type) bool {
	b, ok := t.Underlying().(*types.Basic)
	return ok && b.Info()&types.IsUnsigned != 0
}

func (u *Unit) execBinOp(st *State, x *ssa.BinOp) Term {
	a, b := u.val(st, x.X), u.val(st, x.Y)
	t := x.Type()
	xt := x.X.Type()
	res := func(s Term) Term { s.T = t; return s }
	isStr := a.Sort == SStr
	switch x.Op {
	case token.ADD:
		if isStr {
			return res(app("scat", SStr, a, b))
		}
		r := add(a, b)
		u.overflowCheck(st, r, t, x.Pos())
		return res(r)
	case token.SUB:
		r := sub(a, b)
		u.overflowCheck(st, r, t, x.Pos())
		return res(r)
	case token.MUL:
		r := app("*", SInt, a, b)
		u.overflowCheck(st, r, t, x.Pos())
		return res(r)
	case token.QUO:
		u.oblige(st, "safety", x.Pos(), not(eq(b, intLit(0))), "integer division by zero", u.safetyTags())
		// Go truncates toward zero
		q := u.fresh(st, "quo", SInt, t)
		st.assume(and(not(eq(b, intLit(0))), eq(q, ite(and(le(intLit(0), a)), ite(lt(intLit(0), b), app("div", SInt, a, b), app("-", SInt, app("div", SInt, a, app("-", SInt, b)))),
			ite(lt(intLit(0), b), app("-", SInt, app("div", SInt, app("-", SInt, a), b)), app("div", SInt, app("-", SInt, a), app("-", SInt, b)))))))
		return res(q)
	case token.REM:
		u.oblige(st, "safety", x.Pos(), not(eq(b, intLit(0))), "integer division by zero", u.safetyTags())
		if isUnsigned(xt) {
			return res(app("mod", SInt, a, b))
		}
		r := u.fresh(st, "rem", SInt, t)
		u.note(u.key + ": signed % is left uninterpreted")
		return res(r)
	case token.EQL, token.NEQ:
		var e Term
		switch {
		case isStr:
			e = u.strEq(st, x.X, x.Y, a, b)
		case a.Sort == SSlice:
			// slices only compare with nil: nil-ness is a nil backing array
			if c, ok := x.Y.(*ssa.Const); ok && c.Value == nil {
				e = eq(app("sbase", SInt, a), intLit(0))
			} else {
				e = eq(app("sbase", SInt, b), intLit(0))
			}
		default:
			e = eq(a, b)
		}
		if x.Op == token.NEQ {
			e = not(e)
		}
		return res(e)
	case token.LSS:
		if isStr {
			panic(unsupported("string ordering"))
		}
		return res(lt(a, b))
	case token.LEQ:
		return res(le(a, b))
	case token.GTR:
		return res(lt(b, a))
	case token.GEQ:
		return res(le(b, a))
	case token.AND, token.OR, token.XOR, token.AND_NOT, token.SHL, token.SHR:
		if a.Sort == SBool {
			switch x.Op {
			case token.AND:
				return res(and(a, b))
			case token.OR:
				return res(or(a, b))
			}
		}
		return res(u.bitOp(st, x.Op, a, b, t))
	}
	panic(unsupported("binop " + x.Op.String()))
}

// bitOp: bit operations are evaluated on 64-bit vectors via uninterpreted bridge-free encoding:
// only operations on small constants (fsnotify.Op masks, S_IFMT) occur; the result is a fresh
// value constrained by an uninterpreted function so that equal operands give equal results.
func (u *Unit) bitOp(st *State, op token.Token, a, b Term, t types.Type) Term {
	name := map[token.Token]string{token.AND: "bit_and", token.OR: "bit_or", token.XOR: "bit_xor", token.AND_NOT: "bit_andnot", token.SHL: "bit_shl", token.SHR: "bit_shr"}[op]
	u.pre.declFun(name, fmt.Sprintf("(declare-fun %s (Int Int) Int)", name))
	u.note(u.key + ": bit operation " + op.String() + " is an uninterpreted function of its operands")
	r := app(name, SInt, a, b)
	v := u.define(st, "bits", r)
	st.assume(u.typeFacts(v, t))
	if op == token.AND {
		// x & y <= x, y for non-negative operands; == 0 iff no common bits is not derived
		st.assume(implies(and(le(intLit(0), a), le(intLit(0), b)), and(le(intLit(0), v), le(v, a), le(v, b))))
	}
	return v
}

func (u *Unit) overflowCheck(st *State, r Term, t types.Type, pos token.Pos) {
	b, ok := t.Underlying().(*types.Basic)
	if !ok || b.Info()&types.IsInteger == 0 {
		return
	}
	lo, hi := intRange(b.Kind())
	goal := and(le(bigLit(lo), r), le(r, bigLit(hi)))
	u.oblige(st, "overflow", pos, goal, "no wrap-around in "+b.Name()+" arithmetic", nil)
	st.assume(goal)
}

// strEq compares two strings; comparison with a literal is unfolded to length and bytes.
func (u *Unit) strEq(st *State, xv, yv ssa.Value, a, b Term) Term {
	if c, ok := yv.(*ssa.Const); ok && c.Value != nil && c.Value.Kind() == constant.String {
		return u.strEqLit(a, constant.StringVal(c.Value))
	}
	if c, ok := xv.(*ssa.Const); ok && c.Value != nil && c.Value.Kind() == constant.String {
		return u.strEqLit(b, constant.StringVal(c.Value))
	}
	return u.strEqTerms(st, a, b)
}

func (u *Unit) strEqLit(a Term, lit string) Term {
	if len(lit) == 0 {
		// all empty strings are the same value
		return eq(app("slen", SInt, a), intLit(0))
	}
	if len(lit) > 64 {
		return eq(a, u.strLit(lit))
	}
	// s == "lit" is the atom seq(s, lit); one axiom per literal ties it to the content of s, the
	// general seq axiom ties it to SMT equality (so table lookups and byte-wise reasoning agree).
	l := u.strLit(lit)
	cs := []string{fmt.Sprintf("(= (slen s) %d)", len(lit))}
	for i := 0; i < len(lit); i++ {
		cs = append(cs, fmt.Sprintf("(= (sat s %d) %d)", i, lit[i]))
	}
	u.pre.axiomFor("(seq ", fmt.Sprintf("(forall ((s Str)) (! (= (seq s %s) (and %s)) :pattern ((seq s %s))))", l.S, strings.Join(cs, " "), l.S))
	return app("seq", SBool, a, l)
}

// strEqTerms is SMT equality plus the extensionality instance for this pair.
func (u *Unit) strEqTerms(st *State, a, b Term) Term {
	if st != nil {
		st.assume(u.extInstance(a, b))
	}
	return eq(a, b)
}

func (u *Unit) extInstance(a, b Term) Term {
	d := app("sdiff", SInt, a, b)
	return or(eq(a, b), not(eq(app("slen", SInt, a), app("slen", SInt, b))),
		and(le(intLit(0), d), lt(d, app("slen", SInt, a)), not(eq(app("sat", SInt, a, d), app("sat", SInt, b, d)))))
}

func (u *Unit) execUnOp(st *State, x *ssa.UnOp) {
	switch x.Op {
	case token.MUL: // load
		pt := x.X.Type().Underlying().(*types.Pointer)
		elem := pt.Elem()
		if _, ok := isStruct(elem); ok {
			r := u.val(st, x.X)
			u.nilCheck(st, r, x.Pos(), "load of "+types.TypeString(elem, nil))
			v := u.gather(st, elem, r)
			v = u.define(st, x.Name(), v)
			v.T = x.Type()
			st.vals[x] = v
			return
		}
		if _, ok := elem.Underlying().(*types.Array); ok {
			panic(unsupported("load of array value"))
		}
		l := u.locOf(st, x.X)
		if _, static := st.locs[x.X]; !static {
			u.nilCheck(st, l.Ref, x.Pos(), "load through "+x.X.Name())
		}
		v := u.loadLoc(st, l)
		v = u.define(st, x.Name(), v)
		v.T = x.Type()
		st.assume(u.typeFacts(v, x.Type()))
		u.knownRef(st, v, x.Type())
		u.entryClosed(st, l, v, x.Type())
		st.vals[x] = v
		if g, ok := x.X.(*ssa.Global); ok {
			if isErrorSentinel(g) {
				st.assume(not(eq(v, intLit(0))))
				u.note("error sentinels (package variables named Err*/Skip*) are non-nil")
			}
			if _, isMap := x.Type().Underlying().(*types.Map); isMap {
				u.assumeTable(st, g, v)
			}
		}
	case token.NOT:
		r := not(u.val(st, x.X))
		r.T = x.Type()
		st.vals[x] = r
	case token.SUB:
		r := app("-", SInt, u.val(st, x.X))
		u.overflowCheck(st, r, x.Type(), x.Pos())
		r.T = x.Type()
		st.vals[x] = r
	case token.ARROW:
		// channel receive: value unconstrained
		if x.CommaOk {
			ct := x.X.Type().Underlying().(*types.Chan)
			st.tuples[x] = []Term{u.freshOf(st, "recv", ct.Elem()), u.fresh(st, "recvok", SBool, nil)}
		} else {
			st.vals[x] = u.freshOf(st, "recv", x.Type())
		}
		u.note(u.key + ": channel receive yields an unconstrained value")
	case token.XOR:
		r := u.fresh(st, "compl", SInt, x.Type())
		st.vals[x] = r
	default:
		panic(unsupported("unop " + x.Op.String()))
	}
}

// freshOf creates an unconstrained value of a Go type (with its type facts).
func (u *Unit) freshOf(st *State, prefix string, t types.Type) Term {
	v := u.fresh(st, prefix, u.sortOf(t), t)
	u.knownRef(st, v, t)
	return v
}

func (u *Unit) execConvert(st *State, x *ssa.Convert) Term {
	v := u.val(st, x.X)
	from, to := x.X.Type().Underlying(), x.Type().Underlying()
	fb, fok := from.(*types.Basic)
	tb, tok := to.(*types.Basic)
	if fok && tok {
		switch {
		case fb.Info()&types.IsInteger != 0 && tb.Info()&types.IsInteger != 0:
			lo, hi := intRange(tb.Kind())
			flo, fhi := intRange(fb.Kind())
			if !(bigLE(lo, flo) && bigLE(fhi, hi)) {
				// narrowing or sign change: side condition
				goal := and(le(bigLit(lo), v), le(v, bigLit(hi)))
				u.oblige(st, "overflow", x.Pos(), goal, "conversion "+fb.Name()+"→"+tb.Name()+" preserves the value", nil)
				st.assume(goal)
			}
			v.T = x.Type()
			return v
		case fb.Info()&types.IsString != 0 && tb.Info()&types.IsString != 0:
			v.T = x.Type()
			return v
		case fb.Info()&types.IsInteger != 0 && tb.Info()&types.IsString != 0:
			// string(rune): 1..4 bytes, first byte is the rune when ASCII
			r := u.fresh(st, "runestr", SStr, x.Type())
			st.assume(and(le(intLit(1), app("slen", SInt, r)), le(app("slen", SInt, r), intLit(4)),
				implies(and(le(intLit(0), v), lt(v, intLit(128))), and(eq(app("slen", SInt, r), intLit(1)), eq(app("sat", SInt, r, intLit(0)), v)))))
			return r
		}
	}
	// string <-> []byte
	if fok && fb.Info()&types.IsString != 0 {
		if _, ok := to.(*types.Slice); ok {
			return u.bytesOfString(st, v, x.Type())
		}
	}
	if tok && tb.Info()&types.IsString != 0 {
		if _, ok := from.(*types.Slice); ok {
			return u.stringOfBytes(st, v, x.Type())
		}
	}
	if _, ok := to.(*types.Pointer); ok {
		v.T = x.Type()
		return v
	}
	panic(unsupported(fmt.Sprintf("conversion %s → %s", x.X.Type(), x.Type())))
}

func bigLE(a, b string) bool {
	// compare decimal strings (possibly negative)
	na, nb := strings.HasPrefix(a, "-"), strings.HasPrefix(b, "-")
	switch {
	case na && !nb:
		return true
	case !na && nb:
		return false
	case na && nb:
		return bigLE(b[1:], a[1:])
	}
	if len(a) != len(b) {
		return len(a) < len(b)
	}
	return a <= b
}

func (u *Unit) bytesOfString(st *State, s Term, t types.Type) Term {
	base := u.allocRef(st, "bytes")
	comp, cs := u.elemComp(types.Typ[types.Uint8])
	h := u.heapGet(st, comp, cs)
	inner := u.fresh(st, "bytesarr", arraySort(SInt, SInt), nil)
	st.assume(mk(fmt.Sprintf("(forall ((i Int)) (! (=> (and (<= 0 i) (< i (slen %s))) (= (select %s i) (sat %s i))) :pattern ((select %s i))))", s.S, inner.S, s.S, inner.S), SBool))
	u.heapSet(st, comp, store(h, base, inner))
	n := app("slen", SInt, s)
	return mkT(fmt.Sprintf("(mkslice %s 0 %s %s)", base.S, n.S, n.S), SSlice, t)
}

func (u *Unit) stringOfBytes(st *State, b Term, t types.Type) Term {
	comp, cs := u.elemComp(types.Typ[types.Uint8])
	h := u.heapGet(st, comp, cs)
	r := u.fresh(st, "str", SStr, t)
	arr := sel(h, app("sbase", SInt, b), arraySort(SInt, SInt))
	st.assume(eq(app("slen", SInt, r), app("slen_", SInt, b)))
	st.assume(mk(fmt.Sprintf("(forall ((i Int)) (! (=> (and (<= 0 i) (< i (slen %s))) (= (sat %s i) (select %s (sidx %s i)))) :pattern ((sat %s i))))", r.S, r.S, arr.S, b.S, r.S), SBool))
	return r
}

func (u *Unit) execMakeInterface(st *State, x *ssa.MakeInterface) Term {
	v := u.val(st, x.X)
	i := u.fresh(st, "iface", SInt, x.Type())
	tag := u.eng.typeTag(x.X.Type())
	u.pre.declFun("itag", "(declare-fun itag (Int) Int)")
	st.assume(and(lt(intLit(0), i), eq(app("itag", SInt, i), intLit(int64(tag)))))
	pf := u.payloadFn(x.X.Type())
	st.assume(eq(app(pf, v.Sort, i), v))
	return i
}

func (u *Unit) payloadFn(t types.Type) string {
	n := "ival_" + u.eng.tn.mangle(t)
	u.pre.declFun(n, fmt.Sprintf("(declare-fun %s (Int) %s)", n, u.sortOf(t)))
	return n
}

func (u *Unit) execTypeAssert(st *State, x *ssa.TypeAssert) {
	v := u.val(st, x.X)
	u.pre.declFun("itag", "(declare-fun itag (Int) Int)")
	if _, isIface := x.AssertedType.Underlying().(*types.Interface); isIface {
		// interface-to-interface assertion: succeeds iff non-nil and implements; abstracted
		ok := u.fresh(st, "assertok", SBool, nil)
		st.assume(implies(ok, not(eq(v, intLit(0)))))
		if x.CommaOk {
			r := v
			r.T = x.AssertedType
			st.tuples[x] = []Term{ite(ok, r, intLit(0)), ok}
		} else {
			u.oblige(st, "safety", x.Pos(), ok, "type assertion to interface may fail", u.safetyTags())
			r := v
			r.T = x.AssertedType
			st.vals[x] = r
		}
		u.note(u.key + ": interface-to-interface type assertion result is abstract")
		return
	}
	tag := u.eng.typeTag(x.AssertedType)
	ok := and(not(eq(v, intLit(0))), eq(app("itag", SInt, v), intLit(int64(tag))))
	pf := u.payloadFn(x.AssertedType)
	pv := app(pf, u.sortOf(x.AssertedType), v)
	pv.T = x.AssertedType
	if x.CommaOk {
		okc := u.define(st, "ok", ok)
		val := u.define(st, x.Name(), ite(okc, pv, u.zero(x.AssertedType)))
		val.T = x.AssertedType
		u.knownRef(st, val, x.AssertedType)
		st.assume(u.typeFacts(val, x.AssertedType))
		st.tuples[x] = []Term{val, okc}
		return
	}
	u.oblige(st, "safety", x.Pos(), ok, "type assertion without comma-ok may fail", u.safetyTags())
	st.assume(ok)
	val := u.define(st, x.Name(), pv)
	val.T = x.AssertedType
	u.knownRef(st, val, x.AssertedType)
	st.assume(u.typeFacts(val, x.AssertedType))
	st.vals[x] = val
}

func (u *Unit) execSlice(st *State, x *ssa.Slice) Term {
	v := u.val(st, x.X)
	var lo, hi Term
	if x.Low != nil {
		lo = u.val(st, x.Low)
	} else {
		lo = intLit(0)
	}
	switch xt := x.X.Type().Underlying().(type) {
	case *types.Basic: // string
		n := app("slen", SInt, v)
		if x.High != nil {
			hi = u.val(st, x.High)
		} else {
			hi = n
		}
		goal := and(le(intLit(0), lo), le(lo, hi), le(hi, n))
		u.oblige(st, "safety", x.Pos(), goal, "string slice bounds", u.safetyTags())
		st.assume(goal)
		r := app("ssub", SStr, v, lo, hi)
		r.T = x.Type()
		return u.define(st, x.Name(), r)
	case *types.Slice:
		c := app("scap", SInt, v)
		if x.High != nil {
			hi = u.val(st, x.High)
		} else {
			hi = app("slen_", SInt, v)
		}
		max := c
		if x.Max != nil {
			max = u.val(st, x.Max)
		}
		goal := and(le(intLit(0), lo), le(lo, hi), le(hi, max), le(max, c))
		u.oblige(st, "safety", x.Pos(), goal, "slice bounds", u.safetyTags())
		st.assume(goal)
		r := mkT(fmt.Sprintf("(mkslice %s %s %s %s)", app("sbase", SInt, v).S, add(app("soff", SInt, v), lo).S, sub(hi, lo).S, sub(max, lo).S), SSlice, x.Type())
		return u.define(st, x.Name(), r)
	case *types.Pointer: // pointer to array
		at := xt.Elem().Underlying().(*types.Array)
		n := intLit(at.Len())
		if x.High != nil {
			hi = u.val(st, x.High)
		} else {
			hi = n
		}
		u.nilCheck(st, v, x.Pos(), "slice of nil array pointer")
		goal := and(le(intLit(0), lo), le(lo, hi), le(hi, n))
		u.oblige(st, "safety", x.Pos(), goal, "array slice bounds", u.safetyTags())
		st.assume(goal)
		r := mkT(fmt.Sprintf("(mkslice %s %s %s %s)", v.S, lo.S, sub(hi, lo).S, sub(n, lo).S), SSlice, x.Type())
		return u.define(st, x.Name(), r)
	}
	panic(unsupported("slice of " + x.X.Type().String()))
}

func (u *Unit) execFieldAddr(st *State, x *ssa.FieldAddr) {
	r := u.val(st, x.X)
	structT := x.X.Type().Underlying().(*types.Pointer).Elem()
	s := structT.Underlying().(*types.Struct)
	u.nilCheck(st, r, x.Pos(), "field "+s.Field(x.Field).Name()+" of nil "+types.TypeString(structT, u.eng.qual))
	ft := s.Field(x.Field).Type()
	if _, ok := isStruct(ft); ok {
		t := u.subRef(structT, x.Field, r)
		t.T = x.Type()
		st.vals[x] = t
		return
	}
	comp, cs, _ := u.fieldComp(structT, x.Field)
	st.locs[x] = Loc{Kind: 1, Comp: comp, CSort: cs, Ref: r, T: ft}
	// opaque first-class value for the case that the pointer escapes
	fa := "fa_" + comp
	u.pre.declFun(fa, fmt.Sprintf("(declare-fun %s (Int) Int)", fa))
	st.vals[x] = mkT(fmt.Sprintf("(%s %s)", fa, r.S), SInt, x.Type())
	// the address of a field of an existing object is not nil
	st.assume(not(eq(st.vals[x], intLit(0))))
	u.guardedAccess(st, x, structT, x.Field, r)
}

func (u *Unit) execIndexAddr(st *State, x *ssa.IndexAddr) {
	v := u.val(st, x.X)
	i := u.val(st, x.Index)
	var base, n, idx Term
	var et types.Type
	switch xt := x.X.Type().Underlying().(type) {
	case *types.Slice:
		et = xt.Elem()
		base, n = app("sbase", SInt, v), app("slen_", SInt, v)
		idx = app("sidx", SInt, v, i)
	case *types.Pointer:
		at := xt.Elem().Underlying().(*types.Array)
		et = at.Elem()
		u.nilCheck(st, v, x.Pos(), "index of nil array pointer")
		base, n = v, intLit(at.Len())
		idx = i
	default:
		panic(unsupported("indexaddr of " + x.X.Type().String()))
	}
	goal := and(le(intLit(0), i), lt(i, n))
	u.oblige(st, "safety", x.Pos(), goal, "index out of range", u.safetyTags())
	st.assume(goal)
	if _, ok := isStruct(et); ok {
		t := u.elemRef(et, base, idx)
		t.T = x.Type()
		st.vals[x] = t
		return
	}
	comp, cs := u.elemComp(et)
	st.locs[x] = Loc{Kind: 2, Comp: comp, CSort: cs, Ref: base, Idx: idx, T: et}
	ea := "eaddr_" + comp
	u.pre.declFun(ea, fmt.Sprintf("(declare-fun %s (Int Int) Int)", ea))
	st.vals[x] = mkT(fmt.Sprintf("(%s %s %s)", ea, base.S, idx.S), SInt, x.Type())
}

func (u *Unit) execIndex(st *State, x *ssa.Index) {
	v := u.val(st, x.X)
	i := u.val(st, x.Index)
	switch x.X.Type().Underlying().(type) {
	case *types.Basic: // string byte
		goal := and(le(intLit(0), i), lt(i, app("slen", SInt, v)))
		u.oblige(st, "safety", x.Pos(), goal, "string index out of range", u.safetyTags())
		st.assume(goal)
		r := app("sat", SInt, v, i)
		r.T = x.Type()
		st.vals[x] = r
		return
	}
	panic(unsupported("index of " + x.X.Type().String()))
}

func (u *Unit) execStore(st *State, x *ssa.Store) {
	pt := x.Addr.Type().Underlying().(*types.Pointer)
	elem := pt.Elem()
	v := u.val(st, x.Val)
	if _, ok := isStruct(elem); ok {
		r := u.val(st, x.Addr)
		u.nilCheck(st, r, x.Pos(), "store of "+types.TypeString(elem, nil))
		u.frameStoreStruct(st, elem, r, x.Pos())
		u.scatter(st, elem, r, v)
		return
	}
	l := u.locOf(st, x.Addr)
	if _, static := st.locs[x.Addr]; !static {
		u.nilCheck(st, l.Ref, x.Pos(), "store through "+x.Addr.Name())
	}
	u.frameStore(st, l, x.Pos())
	u.storeLoc(st, l, v)
}

// ---------- maps ----------

type mapComps struct {
	dom, val, card     string
	domS, valS, ks, vs string
	kT, vT             types.Type
	unitVal            bool
}

func (u *Unit) mapComps(t types.Type) mapComps {
	mt := t.Underlying().(*types.Map)
	m := u.eng.tn.mangle(mt)
	ks, vs := u.sortOf(mt.Key()), u.sortOf(mt.Elem())
	for _, c := range []string{"MD_" + m, "MV_" + m, "MC_" + m} {
		u.eng.notePkg(c, mt)
	}
	return mapComps{dom: "MD_" + m, val: "MV_" + m, card: "MC_" + m,
		domS: arraySort(SInt, arraySort(ks, SBool)), valS: arraySort(SInt, arraySort(ks, vs)),
		ks: ks, vs: vs, kT: mt.Key(), vT: mt.Elem()}
}

func (u *Unit) mapDom(st *State, mc mapComps, m Term) Term {
	return sel(u.heapGet(st, mc.dom, mc.domS), m, arraySort(mc.ks, SBool))
}
func (u *Unit) mapVal(st *State, mc mapComps, m Term) Term {
	return sel(u.heapGet(st, mc.val, mc.valS), m, arraySort(mc.ks, mc.vs))
}
func (u *Unit) mapCard(st *State, mc mapComps, m Term) Term {
	return sel(u.heapGet(st, mc.card, arraySort(SInt, SInt)), m, SInt)
}

// mapFacts: structural facts about a map object used at this point.
func (u *Unit) mapFacts(st *State, mc mapComps, m Term, k *Term) {
	card := u.mapCard(st, mc, m)
	st.assume(le(intLit(0), card))
	if k != nil {
		st.assume(implies(sel(u.mapDom(st, mc, m), *k, SBool), le(intLit(1), card)))
	}
	// the nil map is empty
	st.assume(implies(eq(m, intLit(0)), eq(card, intLit(0))))
	st.assume(mk(fmt.Sprintf("(=> (= %s 0) (forall ((k %s)) (! (not (select %s k)) :pattern ((select %s k)))))", card.S, mc.ks, u.mapDom(st, mc, m).S, u.mapDom(st, mc, m).S), SBool))
}

func (u *Unit) execLookup(st *State, x *ssa.Lookup) {
	v := u.val(st, x.X)
	k := u.val(st, x.Index)
	if _, ok := x.X.Type().Underlying().(*types.Map); !ok {
		// string index (byte)
		goal := and(le(intLit(0), k), lt(k, app("slen", SInt, v)))
		u.oblige(st, "safety", x.Pos(), goal, "string index out of range", u.safetyTags())
		st.assume(goal)
		r := app("sat", SInt, v, k)
		r.T = x.Type()
		st.vals[x] = r
		return
	}
	mc := u.mapComps(x.X.Type())
	if mc.ks == SStr {
		k = u.define(st, "key", k)
	}
	u.mapFacts(st, mc, v, &k)
	u.guardedMapAccess(st, x.X, x.Pos(), false)
	in := sel(u.mapDom(st, mc, v), k, SBool)
	val := ite(in, sel(u.mapVal(st, mc, v), k, mc.vs), u.zero(mc.vT))
	val.T = mc.vT
	val = u.define(st, x.Name(), val)
	val.T = mc.vT
	st.assume(u.typeFacts(val, mc.vT))
	u.knownRef(st, val, mc.vT)
	if x.CommaOk {
		st.tuples[x] = []Term{val, u.define(st, "ok", in)}
	} else {
		st.vals[x] = val
	}
}

func (u *Unit) execMapUpdate(st *State, x *ssa.MapUpdate) {
	m := u.val(st, x.Map)
	k := u.val(st, x.Key)
	v := u.val(st, x.Value)
	u.oblige(st, "safety", x.Pos(), not(eq(m, intLit(0))), "assignment to entry in nil map", u.safetyTags())
	st.assume(not(eq(m, intLit(0))))
	u.guardedMapAccess(st, x.Map, x.Pos(), true)
	mc := u.mapComps(x.Map.Type())
	u.frameMapWrite(st, mc, m, x.Pos())
	u.mapStore(st, mc, m, k, v)
}

func (u *Unit) mapStore(st *State, mc mapComps, m, k, v Term) {
	if mc.ks == SStr {
		k = u.define(st, "key", k)
	}
	u.mapFacts(st, mc, m, &k)
	dom := u.mapDom(st, mc, m)
	card := u.mapCard(st, mc, m)
	newCard := ite(sel(dom, k, SBool), card, add(card, intLit(1)))
	hd := u.heapGet(st, mc.dom, mc.domS)
	hv := u.heapGet(st, mc.val, mc.valS)
	hc := u.heapGet(st, mc.card, arraySort(SInt, SInt))
	u.heapSet(st, mc.card, store(hc, m, newCard))
	u.heapSet(st, mc.dom, store(hd, m, store(dom, k, tTrue)))
	u.heapSet(st, mc.val, store(hv, m, store(sel(hv, m, arraySort(mc.ks, mc.vs)), k, v)))
}

func (u *Unit) mapDelete(st *State, mc mapComps, m, k Term) {
	if mc.ks == SStr {
		k = u.define(st, "key", k)
	}
	u.mapFacts(st, mc, m, &k)
	dom := u.mapDom(st, mc, m)
	card := u.mapCard(st, mc, m)
	newCard := ite(sel(dom, k, SBool), sub(card, intLit(1)), card)
	hd := u.heapGet(st, mc.dom, mc.domS)
	hc := u.heapGet(st, mc.card, arraySort(SInt, SInt))
	// delete on a nil map is a no-op
	u.heapSet(st, mc.card, ite(eq(m, intLit(0)), hc, store(hc, m, newCard)))
	u.heapSet(st, mc.dom, ite(eq(m, intLit(0)), hd, store(hd, m, store(dom, k, tFalse))))
}

func (u *Unit) execMakeMap(st *State, x *ssa.MakeMap) {
	r := u.allocRef(st, "map")
	r.T = x.Type()
	mc := u.mapComps(x.Type())
	hd := u.heapGet(st, mc.dom, mc.domS)
	hc := u.heapGet(st, mc.card, arraySort(SInt, SInt))
	u.heapGet(st, mc.val, mc.valS)
	empty := mk(fmt.Sprintf("((as const %s) false)", arraySort(mc.ks, SBool)), arraySort(mc.ks, SBool))
	u.heapSet(st, mc.dom, store(hd, r, empty))
	u.heapSet(st, mc.card, store(hc, r, intLit(0)))
	st.vals[x] = r
}

func (u *Unit) execMakeSlice(st *State, x *ssa.MakeSlice) {
	n, c := u.val(st, x.Len), u.val(st, x.Cap)
	goal := and(le(intLit(0), n), le(n, c))
	u.oblige(st, "safety", x.Pos(), goal, "makeslice: len out of range", u.safetyTags())
	st.assume(goal)
	base := u.allocRef(st, "arr")
	et := x.Type().Underlying().(*types.Slice).Elem()
	if _, ok := isStruct(et); !ok {
		comp, cs := u.elemComp(et)
		h := u.heapGet(st, comp, cs)
		inner := arrayElemSort(cs)
		zeroArr := mk(fmt.Sprintf("((as const %s) %s)", inner, u.zero(et).S), inner)
		u.heapSet(st, comp, store(h, base, zeroArr))
	} else {
		u.note(u.key + ": make([]struct) elements are not zero-initialised in the model (unconstrained)")
	}
	st.vals[x] = mkT(fmt.Sprintf("(mkslice %s 0 %s %s)", base.S, n.S, c.S), SSlice, x.Type())
}

func (u *Unit) execMakeClosure(st *State, x *ssa.MakeClosure) {
	r := u.allocRef(st, "closure")
	r.T = x.Type()
	fn := x.Fn.(*ssa.Function)
	u.pre.declFun("clfn", "(declare-fun clfn (Int) Int)")
	st.assume(eq(app("clfn", SInt, r), intLit(int64(u.eng.funcID(fn.String())))))
	st.vals[x] = r
}

// ---------- range ----------

func (u *Unit) execRange(st *State, x *ssa.Range) {
	v := u.val(st, x.X)
	switch t := x.X.Type().Underlying().(type) {
	case *types.Basic:
		st.iters[x] = &iterState{kind: "string", str: v, pos: intLit(0)}
	case *types.Map:
		mc := u.mapComps(x.X.Type())
		empty := mk(fmt.Sprintf("((as const %s) false)", arraySort(mc.ks, SBool)), arraySort(mc.ks, SBool))
		st.iters[x] = &iterState{kind: "map", mref: v, mT: t, seen: empty}
		u.guardedMapAccess(st, x.X, x.Pos(), false)
	default:
		panic(unsupported("range over " + x.X.Type().String()))
	}
	st.vals[x] = mkT("0", SInt, x.Type())
}

func (u *Unit) execNext(st *State, x *ssa.Next) {
	it, ok := st.iters[x.Iter.(*ssa.Range)]
	if !ok {
		panic(unsupported("next on unknown iterator"))
	}
	if it.kind == "string" {
		s, p := it.str, it.pos
		n := app("slen", SInt, s)
		okT := u.define(st, "ok", lt(p, n))
		r := u.fresh(st, "rune", SInt, types.Typ[types.Rune])
		w := u.fresh(st, "width", SInt, nil)
		b0 := app("sat", SInt, s, p)
		// UTF-8 decoding, weakened: ASCII bytes decode to themselves with width 1; a
		// non-ASCII lead byte yields a rune >= 128 (or RuneError 0xFFFD) of width 1..4
		// that does not overrun the string; continuation bytes inside it are >= 128.
		st.assume(implies(okT, and(
			implies(lt(b0, intLit(128)), and(eq(r, b0), eq(w, intLit(1)))),
			implies(le(intLit(128), b0), and(le(intLit(128), r), le(intLit(1), w), le(w, intLit(4)), le(add(p, w), n),
				mk(fmt.Sprintf("(forall ((k Int)) (=> (and (< %s k) (< k (+ %s %s))) (>= (sat %s k) 128)))", p.S, p.S, w.S, s.S), SBool))))))
		st.assume(and(le(intLit(0), r), le(r, intLit(0x10FFFF))))
		idx := p
		idx.T = types.Typ[types.Int]
		it.pos = u.define(st, "pos", ite(okT, add(p, w), p))
		st.tuples[x] = []Term{okT, idx, r}
		return
	}
	// map
	mc := u.mapComps(it.mT)
	dom := u.mapDom(st, mc, it.mref)
	okT := u.fresh(st, "ok", SBool, nil)
	k := u.freshOf(st, "k", mc.kT)
	val := sel(u.mapVal(st, mc, it.mref), k, mc.vs)
	val.T = mc.vT
	v := u.define(st, "v", val)
	v.T = mc.vT
	st.assume(u.typeFacts(v, mc.vT))
	u.knownRef(st, v, mc.vT)
	// a nil map has no keys
	st.assume(implies(okT, and(sel(dom, k, SBool), not(sel(it.seen, k, SBool)), not(eq(it.mref, intLit(0))))))
	st.assume(implies(not(okT), mk(fmt.Sprintf("(forall ((kk %s)) (! (=> (select %s kk) (select %s kk)) :pattern ((select %s kk))))", mc.ks, dom.S, it.seen.S, dom.S), SBool)))
	it.seen = u.define(st, "seen", ite(okT, store(it.seen, k, tTrue), it.seen))
	it.cur = k
	st.tuples[x] = []Term{okT, k, v}
}

func (u *Unit) execSelect(st *State, x *ssa.Select) {
	// index, recvOk, then one value per receive state: all unconstrained
	tup := x.Type().(*types.Tuple)
	var rs []Term
	for i := 0; i < tup.Len(); i++ {
		rs = append(rs, u.freshOf(st, "select", tup.At(i).Type()))
	}
	st.assume(and(le(intLit(-1), rs[0]), lt(rs[0], intLit(int64(len(x.States))))))
	if x.Blocking {
		st.assume(le(intLit(0), rs[0]))
	}
	st.tuples[x] = rs
	u.note(u.key + ": select chooses an arbitrary ready case; received values are unconstrained")
	u.afterBlocking(st)
}

func (u *Unit) execGo(st *State, x *ssa.Go) {
	u.note(u.key + ": go statement: the spawned function's precondition is checked at the spawn point; its execution is not interleaved")
	u.callPreOnly(st, x, &x.Call)
}
