package main

import (
	"fmt"
	"go/ast"
	"go/parser"
	"os"
	"path/filepath"
	"regexp"
	"strconv"
	"strings"
)

// Clause is one contract expression with its source text and property tags.
type Clause struct {
	Text string
	Expr ast.Expr
	Tags []string
	File string
	Line int
}

type LoopContract struct {
	Invariants []Clause
	Decreases  *Clause
}

type TypedName struct {
	Name string
	Type ast.Expr // may be nil
}

// PredDef is a non-recursive spec function, expanded at use.
type PredDef struct {
	Name     string
	Params   []TypedName
	Body     ast.Expr
	Pkg      string
	File     string
	Line     int
	Abstract bool
	Opaque   bool // uninterpreted unless the function under verification reveals it
}

type ModSpec struct {
	Text string
	Expr ast.Expr
}

type GhostVar struct {
	Name string
	Sort string // int | bool | string | intarray | strarray
	Init ast.Expr
	// External: models state outside the program (the file system): any call without contract may change it
	External bool
}

type GhostUpdate struct {
	At   string // "call N of F" | "loop K body end" | "entry" ...
	Var  string
	Expr ast.Expr
	Text string
}

type HintAt struct {
	Where  string // e.g. "call 1 of ParseQualifier", "return 3", "loop 1 head"
	Clause Clause
}

// Contract is the specification of one function.
type Contract struct {
	Key           string // (*T).M, T.M, F, F$1
	Pkg           string // package path ("" for extern: Key carries the package)
	Extern        bool
	Params        []string
	Results       []string
	Logical       []TypedName
	Requires      []Clause
	Ensures       []Clause
	When          []Clause // applicability guard of external contracts
	Loops         map[int]*LoopContract
	Modifies      []ModSpec
	HasModifies   bool
	Pure          bool
	Asserts       []HintAt
	Ghosts        []GhostUpdate
	File          string
	Line          int
	Uses          map[string]string // call-site instantiations of callee logical variables: "callee.var" -> expr text
	Trusted       bool              // body is not verified (assumed contract on /repo code); listed in evidence
	Acquires      []string
	Raw           []string
	FrameTags     []string
	GhostWrites   []string
	Deterministic bool
	Reveals       []string
	Preserves     []string
	TypeFrame     bool
	Constructor   bool     // the function creates the cache object: exclusive access until it returns
	Invariants    []Clause // required at entry, ensured at exit; preserved by functions that only apply this one
	invDone       bool
	Applies       string // name of the function-valued parameter this function calls (and nothing else writes its invariant's footprint)
	TypeFramePkgs []string
	DirectPkg     string
	DirectFields  []string
	GhostVars     []GhostVar
}

type ContractSet struct {
	Funcs        map[string]*Contract // key: pkgpath + "." + Key  (extern: "strings.SplitN")
	Preds        map[string]*PredDef  // key: name (global namespace; package-qualified lookup first)
	Guards       []GuardDecl
	Files        []string
	Lemmas       []*Lemma
	FuncTypes    map[string]*Contract
	GhostGlobals []GhostVar
	UFuns        []UFunDecl
	Axioms       []AxiomDecl
}

type UFunDecl struct {
	Name   string
	Params []TypedName
	Result TypedName
	Pkg    string
}

type AxiomDecl struct {
	Name   string
	Clause Clause
	Pkg    string
}

type GuardDecl struct {
	Pkg    string
	Struct string
	Fields []string
	By     string
}

type Lemma struct {
	Name     string
	Params   []TypedName
	Requires []Clause
	Ensures  []Clause
	Induct   string
	Hints    []Clause
	Pkg      string
	File     string
	Line     int
}

func newContractSet() *ContractSet {
	return &ContractSet{Funcs: map[string]*Contract{}, Preds: map[string]*PredDef{}, FuncTypes: map[string]*Contract{}}
}

var tagRe = regexp.MustCompile(`^ensures\[([A-Za-z0-9_., ]+)\]`)

// preprocess turns contract expression text into something go/parser accepts.
func preprocessExpr(s string) string {
	// strip trailing // comments
	if i := strings.Index(s, "//"); i >= 0 {
		s = s[:i]
	}
	s = strings.ReplaceAll(s, "#", "__h_")
	s = strings.ReplaceAll(s, "$", "__D_")
	return strings.TrimSpace(s)
}

func parseExpr(text string) (ast.Expr, error) {
	e, err := parser.ParseExpr(preprocessExpr(text))
	if err != nil {
		return nil, fmt.Errorf("contract expression %q: %v", text, err)
	}
	return e, nil
}

// loadContractFile reads one contract file. pkgPath is the Go package the file belongs to
// ("" for the external contracts file).
func (cs *ContractSet) loadContractFile(path, pkgPath string) error {
	data, err := os.ReadFile(path)
	if err != nil {
		return err
	}
	cs.Files = append(cs.Files, path)
	isGo := strings.HasSuffix(path, ".go")
	var lines []struct {
		text string
		no   int
	}
	for i, l := range strings.Split(string(data), "\n") {
		t := strings.TrimRight(l, " \t\r")
		if isGo {
			tt := strings.TrimSpace(t)
			if !strings.HasPrefix(tt, "//@") {
				continue
			}
			t = strings.TrimPrefix(tt, "//@")
		} else {
			if strings.HasPrefix(strings.TrimSpace(t), "//") {
				continue
			}
		}
		// drop comment-only lines
		if strings.HasPrefix(strings.TrimSpace(t), "//") {
			continue
		}
		if strings.TrimSpace(t) == "" {
			continue
		}
		lines = append(lines, struct {
			text string
			no   int
		}{t, i + 1})
	}
	keywords := []string{"pred ", "abstract pred ", "func ", "extern func ", "functype ", "requires ", "ensures", "logical ", "loop ", "modifies", "pure", "assert ", "assert[", "ghost ", "when ", "guarded ", "lemma ", "hint ", "by ", "use ", "trusted", "acquires ", "fn ", "ufun ", "axiom ", "deterministic", "frametags ", "opaque pred ", "reveal ", "preserves ", "ghostvar ", "typeframe", "typeframe ", "directwrites ", "constructor", "ghostglobal ", "ghostwrites ", "invariant ", "applies "}
	startsKeyword := func(s string) bool {
		s = strings.TrimSpace(s)
		for _, k := range keywords {
			if strings.HasPrefix(s, k) || s == strings.TrimSpace(k) {
				return true
			}
		}
		return false
	}
	// join continuation lines
	type item struct {
		text string
		no   int
	}
	var items []item
	for _, l := range lines {
		if startsKeyword(l.text) || len(items) == 0 {
			items = append(items, item{strings.TrimSpace(stripComment(l.text)), l.no})
		} else {
			items[len(items)-1].text += " " + strings.TrimSpace(stripComment(l.text))
		}
	}
	var cur *Contract
	var curLemma *Lemma
	for _, it := range items {
		t := it.text
		mkClause := func(text string, tags []string) (Clause, error) {
			e, err := parseExpr(text)
			if err != nil {
				return Clause{}, fmt.Errorf("%s:%d: %v", path, it.no, err)
			}
			return Clause{Text: strings.TrimSpace(text), Expr: e, Tags: tags, File: filepath.Base(path), Line: it.no}, nil
		}
		switch {
		case strings.HasPrefix(t, "ufun "):
			// ufun name(a string, i int) string : uninterpreted spec function
			name, params, results, err := parseHeader("func " + strings.TrimPrefix(t, "ufun "))
			if err != nil || len(results) != 1 {
				return fmt.Errorf("%s:%d: ufun name(params) result: %v", path, it.no, err)
			}
			cs.UFuns = append(cs.UFuns, UFunDecl{Name: name, Params: params, Result: results[0], Pkg: pkgPath})
			cur, curLemma = nil, nil
		case strings.HasPrefix(t, "axiom "):
			rest := strings.TrimPrefix(t, "axiom ")
			i := strings.Index(rest, ":")
			if i < 0 {
				return fmt.Errorf("%s:%d: axiom name: expr", path, it.no)
			}
			c, err := mkClause(rest[i+1:], nil)
			if err != nil {
				return err
			}
			cs.Axioms = append(cs.Axioms, AxiomDecl{Name: strings.TrimSpace(rest[:i]), Clause: c, Pkg: pkgPath})
			cur, curLemma = nil, nil
		case strings.HasPrefix(t, "pred ") || strings.HasPrefix(t, "abstract pred ") || strings.HasPrefix(t, "fn ") || strings.HasPrefix(t, "opaque pred "):
			abstract := strings.HasPrefix(t, "abstract ")
			opaque := strings.HasPrefix(t, "opaque ")
			t = strings.TrimPrefix(strings.TrimPrefix(strings.TrimPrefix(strings.TrimPrefix(t, "opaque "), "abstract "), "pred "), "fn ")
			var head, body string
			if i := strings.Index(t, "="); i >= 0 && !abstract {
				// the first '=' that is not part of '==', '<=', '>=', '!='
				i = findDefEq(t)
				head, body = t[:i], t[i+1:]
			} else {
				head = t
			}
			name, params, _, err := parseHeader("func " + strings.TrimSpace(head))
			if err != nil {
				return fmt.Errorf("%s:%d: %v", path, it.no, err)
			}
			pd := &PredDef{Name: name, Params: params, Pkg: pkgPath, File: filepath.Base(path), Line: it.no, Abstract: abstract, Opaque: opaque}
			if !abstract {
				e, err := parseExpr(body)
				if err != nil {
					return fmt.Errorf("%s:%d: %v", path, it.no, err)
				}
				pd.Body = e
			}
			cs.Preds[name] = pd
			cur, curLemma = nil, nil
		case strings.HasPrefix(t, "func ") || strings.HasPrefix(t, "extern func ") || strings.HasPrefix(t, "functype "):
			extern := strings.HasPrefix(t, "extern ")
			functype := strings.HasPrefix(t, "functype ")
			h := strings.TrimPrefix(t, "extern ")
			if functype {
				h = "func " + strings.TrimPrefix(h, "functype ")
			}
			name, params, results, err := parseHeader(h)
			if err != nil {
				return fmt.Errorf("%s:%d: %v", path, it.no, err)
			}
			c := &Contract{Key: name, Pkg: pkgPath, Extern: extern, Loops: map[int]*LoopContract{}, File: filepath.Base(path), Line: it.no, Uses: map[string]string{}}
			if strings.Contains(name, "$") && strings.HasPrefix(name, "(") && len(params) > 0 {
				// a closure of a method: the receiver in the header only names the parent, it is not a parameter
				params = params[1:]
			}
			for _, p := range params {
				c.Params = append(c.Params, p.Name)
			}
			for _, r := range results {
				c.Results = append(c.Results, r.Name)
			}
			if functype {
				cs.FuncTypes[pkgPath+"."+name] = c
			} else if extern {
				cs.Funcs[name] = c
			} else {
				cs.Funcs[pkgPath+"."+name] = c
			}
			cur, curLemma = c, nil
		case strings.HasPrefix(t, "lemma "):
			h := strings.TrimPrefix(t, "lemma ")
			name, params, _, err := parseHeader("func " + h)
			if err != nil {
				return fmt.Errorf("%s:%d: %v", path, it.no, err)
			}
			curLemma = &Lemma{Name: name, Params: params, Pkg: pkgPath, File: filepath.Base(path), Line: it.no}
			cs.Lemmas = append(cs.Lemmas, curLemma)
			cur = nil
		case strings.HasPrefix(t, "ghostglobal "):
			f := strings.Fields(strings.TrimPrefix(t, "ghostglobal "))
			if len(f) < 2 {
				return fmt.Errorf("%s:%d: ghostglobal name sort", path, it.no)
			}
			gv := GhostVar{Name: f[0], Sort: f[1]}
			if len(f) > 2 && f[2] == "external" {
				gv.External = true
			}
			cs.GhostGlobals = append(cs.GhostGlobals, gv)
			cur, curLemma = nil, nil
		case strings.HasPrefix(t, "guarded "):
			// guarded Cache.{a,b,c} by Cache.Mutex
			m := regexp.MustCompile(`^guarded\s+(\w+)\.\{([^}]*)\}\s+by\s+(.+)$`).FindStringSubmatch(t)
			if m == nil {
				return fmt.Errorf("%s:%d: malformed guarded declaration", path, it.no)
			}
			var fs []string
			for _, f := range strings.Split(m[2], ",") {
				fs = append(fs, strings.TrimSpace(f))
			}
			cs.Guards = append(cs.Guards, GuardDecl{Pkg: pkgPath, Struct: m[1], Fields: fs, By: strings.TrimSpace(m[3])})
		default:
			if cur == nil && curLemma == nil {
				return fmt.Errorf("%s:%d: clause outside a function contract: %s", path, it.no, t)
			}
			if curLemma != nil {
				switch {
				case strings.HasPrefix(t, "requires "):
					c, err := mkClause(strings.TrimPrefix(t, "requires "), nil)
					if err != nil {
						return err
					}
					curLemma.Requires = append(curLemma.Requires, c)
				case strings.HasPrefix(t, "ensures"):
					c, err := mkClause(strings.TrimSpace(tagRe.ReplaceAllString(t, "")), nil)
					if strings.HasPrefix(t, "ensures ") {
						c, err = mkClause(strings.TrimPrefix(t, "ensures "), nil)
					}
					if err != nil {
						return err
					}
					curLemma.Ensures = append(curLemma.Ensures, c)
				case strings.HasPrefix(t, "by induction on "):
					curLemma.Induct = strings.TrimSpace(strings.TrimPrefix(t, "by induction on "))
				case strings.HasPrefix(t, "hint "):
					c, err := mkClause(strings.TrimPrefix(t, "hint "), nil)
					if err != nil {
						return err
					}
					curLemma.Hints = append(curLemma.Hints, c)
				default:
					return fmt.Errorf("%s:%d: unknown lemma clause: %s", path, it.no, t)
				}
				continue
			}
			cur.Raw = append(cur.Raw, t)
			switch {
			case strings.HasPrefix(t, "requires "):
				c, err := mkClause(strings.TrimPrefix(t, "requires "), nil)
				if err != nil {
					return err
				}
				cur.Requires = append(cur.Requires, c)
			case strings.HasPrefix(t, "when "):
				c, err := mkClause(strings.TrimPrefix(t, "when "), nil)
				if err != nil {
					return err
				}
				cur.When = append(cur.When, c)
			case strings.HasPrefix(t, "ensures"):
				var tags []string
				rest := t
				if m := tagRe.FindStringSubmatch(t); m != nil {
					for _, x := range strings.Split(m[1], ",") {
						tags = append(tags, strings.TrimSpace(x))
					}
					rest = t[len(m[0]):]
				} else {
					rest = strings.TrimPrefix(t, "ensures")
				}
				c, err := mkClause(rest, tags)
				if err != nil {
					return err
				}
				cur.Ensures = append(cur.Ensures, c)
			case strings.HasPrefix(t, "logical "):
				_, params, _, err := parseHeader("func L(" + strings.TrimPrefix(t, "logical ") + ")")
				if err != nil {
					return fmt.Errorf("%s:%d: %v", path, it.no, err)
				}
				cur.Logical = append(cur.Logical, params...)
			case strings.HasPrefix(t, "loop "):
				f := strings.Fields(t)
				if len(f) < 4 {
					return fmt.Errorf("%s:%d: malformed loop clause", path, it.no)
				}
				k, err := strconv.Atoi(f[1])
				if err != nil {
					return fmt.Errorf("%s:%d: loop ordinal: %v", path, it.no, err)
				}
				rest := strings.TrimSpace(strings.TrimPrefix(strings.TrimSpace(strings.TrimPrefix(t, "loop")), f[1]))
				lc := cur.Loops[k]
				if lc == nil {
					lc = &LoopContract{}
					cur.Loops[k] = lc
				}
				switch {
				case strings.HasPrefix(rest, "invariant"):
					var tags []string
					body := strings.TrimPrefix(rest, "invariant")
					if m := regexp.MustCompile(`^\[([A-Za-z0-9_., ]+)\]`).FindStringSubmatch(body); m != nil {
						for _, x := range strings.Split(m[1], ",") {
							tags = append(tags, strings.TrimSpace(x))
						}
						body = body[len(m[0]):]
					}
					c, err := mkClause(body, tags)
					if err != nil {
						return err
					}
					lc.Invariants = append(lc.Invariants, c)
				case strings.HasPrefix(rest, "decreases"):
					c, err := mkClause(strings.TrimPrefix(rest, "decreases"), nil)
					if err != nil {
						return err
					}
					lc.Decreases = &c
				default:
					return fmt.Errorf("%s:%d: unknown loop clause %q", path, it.no, rest)
				}
			case t == "pure":
				cur.Pure = true
			case t == "deterministic":
				cur.Deterministic = true
			case t == "constructor":
				cur.Constructor = true
			case strings.HasPrefix(t, "ghostwrites "):
				for _, x := range strings.Split(strings.TrimPrefix(t, "ghostwrites "), ",") {
					cur.GhostWrites = append(cur.GhostWrites, strings.TrimSpace(x))
				}
			case strings.HasPrefix(t, "invariant "):
				// invariant P : P is required and ensured; a function that only applies this function
				// (see `applies`) preserves it
				c, err := mkClause(strings.TrimPrefix(t, "invariant "), nil)
				if err != nil {
					return err
				}
				cur.Invariants = append(cur.Invariants, c)
			case strings.HasPrefix(t, "applies "):
				cur.Applies = strings.TrimSpace(strings.TrimPrefix(t, "applies "))
			case t == "typeframe" || strings.HasPrefix(t, "typeframe "):
				cur.TypeFrame = true
				for _, x := range strings.Split(strings.TrimSpace(strings.TrimPrefix(t, "typeframe")), ",") {
					if x = strings.TrimSpace(x); x != "" {
						cur.TypeFramePkgs = append(cur.TypeFramePkgs, x)
					}
				}
			case strings.HasPrefix(t, "directwrites "):
				// directwrites <package path>: T.f, T.g   (the only fields of that package's types the body may store to)
				rest := strings.TrimPrefix(t, "directwrites ")
				i := strings.Index(rest, ":")
				if i < 0 {
					return fmt.Errorf("%s:%d: directwrites <package>: T.f, ...", path, it.no)
				}
				cur.DirectPkg = strings.TrimSpace(rest[:i])
				for _, x := range strings.Split(rest[i+1:], ",") {
					if x = strings.TrimSpace(x); x != "" {
						cur.DirectFields = append(cur.DirectFields, x)
					}
				}
			case strings.HasPrefix(t, "preserves "):
				for _, x := range strings.Split(strings.TrimPrefix(t, "preserves "), ",") {
					cur.Preserves = append(cur.Preserves, strings.TrimSpace(x))
				}
			case strings.HasPrefix(t, "ghostvar "):
				// ghostvar name sort [= init-expr]
				rest := strings.TrimPrefix(t, "ghostvar ")
				gv := GhostVar{}
				if j := findDefEq(rest); j >= 0 {
					e, err := parseExpr(rest[j+1:])
					if err != nil {
						return fmt.Errorf("%s:%d: %v", path, it.no, err)
					}
					gv.Init = e
					rest = rest[:j]
				}
				f := strings.Fields(rest)
				if len(f) < 2 {
					return fmt.Errorf("%s:%d: ghostvar name sort", path, it.no)
				}
				gv.Name, gv.Sort = f[0], strings.Join(f[1:], " ")
				cur.GhostVars = append(cur.GhostVars, gv)
			case strings.HasPrefix(t, "reveal "):
				for _, x := range strings.Split(strings.TrimPrefix(t, "reveal "), ",") {
					cur.Reveals = append(cur.Reveals, strings.TrimSpace(x))
				}
			case strings.HasPrefix(t, "frametags "):
				for _, x := range strings.Split(strings.TrimPrefix(t, "frametags "), ",") {
					cur.FrameTags = append(cur.FrameTags, strings.TrimSpace(x))
				}
			case t == "trusted":
				cur.Trusted = true
			case strings.HasPrefix(t, "modifies"):
				cur.HasModifies = true
				rest := strings.TrimSpace(strings.TrimPrefix(t, "modifies"))
				if rest != "" && rest != "nothing" {
					for _, part := range splitTop(rest) {
						cur.Modifies = append(cur.Modifies, ModSpec{Text: strings.TrimSpace(part)})
					}
				}
			case strings.HasPrefix(t, "assert ") || strings.HasPrefix(t, "assert["):
				// assert[tags] at <where>: expr
				var atags []string
				if m := regexp.MustCompile(`^assert\[([A-Za-z0-9_., ]+)\]`).FindStringSubmatch(t); m != nil {
					for _, x := range strings.Split(m[1], ",") {
						atags = append(atags, strings.TrimSpace(x))
					}
					t = "assert" + t[len(m[0]):]
				}
				rest := strings.TrimPrefix(t, "assert ")
				where := ""
				if strings.HasPrefix(rest, "at ") || strings.HasPrefix(rest, "after writes of ") {
					i := strings.Index(rest, ":")
					if i < 0 {
						return fmt.Errorf("%s:%d: assert at …: expr", path, it.no)
					}
					where = strings.TrimSpace(strings.TrimPrefix(rest[:i], "at "))
					rest = rest[i+1:]
				}
				c, err := mkClause(rest, atags)
				if err != nil {
					return err
				}
				cur.Asserts = append(cur.Asserts, HintAt{Where: where, Clause: c})
			case strings.HasPrefix(t, "use "):
				// use at call K of F: v = expr, c = expr
				rest := strings.TrimPrefix(t, "use ")
				i := strings.Index(rest, ":")
				if i < 0 {
					return fmt.Errorf("%s:%d: use at call K of F: v = e", path, it.no)
				}
				cur.Uses[strings.TrimSpace(rest[:i])] = strings.TrimSpace(rest[i+1:])
			case strings.HasPrefix(t, "ghost "):
				// ghost at <where>: name = expr
				rest := strings.TrimPrefix(t, "ghost ")
				i := strings.Index(rest, ":")
				if !strings.HasPrefix(rest, "at ") || i < 0 {
					return fmt.Errorf("%s:%d: ghost at …: v = expr", path, it.no)
				}
				where := strings.TrimSpace(rest[3:i])
				as := rest[i+1:]
				j := findDefEq(as)
				e, err := parseExpr(as[j+1:])
				if err != nil {
					return fmt.Errorf("%s:%d: %v", path, it.no, err)
				}
				cur.Ghosts = append(cur.Ghosts, GhostUpdate{At: where, Var: strings.TrimSpace(as[:j]), Expr: e, Text: strings.TrimSpace(as)})
			case strings.HasPrefix(t, "acquires "):
				cur.Acquires = append(cur.Acquires, strings.TrimSpace(strings.TrimPrefix(t, "acquires ")))
			default:
				return fmt.Errorf("%s:%d: unknown clause: %s", path, it.no, t)
			}
		}
	}
	for _, c := range cs.Funcs {
		cs.finishContract(c)
	}
	for _, c := range cs.FuncTypes {
		cs.finishContract(c)
	}
	return nil
}

// finishContract: an `invariant P` clause is both a precondition and a postcondition.
func (cs *ContractSet) finishContract(c *Contract) {
	if c.invDone {
		return
	}
	c.invDone = true
	for _, inv := range c.Invariants {
		r := inv
		c.Requires = append(c.Requires, r)
		e := inv
		e.Text = "invariant: " + inv.Text
		c.Ensures = append(c.Ensures, e)
	}
}

func stripComment(s string) string {
	if i := strings.Index(s, " // "); i >= 0 {
		return s[:i]
	}
	return s
}

// findDefEq finds the first '=' that is a definition sign (not ==, <=, >=, !=).
func findDefEq(s string) int {
	for i := 0; i < len(s); i++ {
		if s[i] != '=' {
			continue
		}
		if i+1 < len(s) && s[i+1] == '=' {
			i++
			continue
		}
		if i > 0 && (s[i-1] == '<' || s[i-1] == '>' || s[i-1] == '!' || s[i-1] == '=') {
			continue
		}
		return i
	}
	return -1
}

func splitTop(s string) []string {
	var out []string
	depth := 0
	last := 0
	for i, c := range s {
		switch c {
		case '(', '[', '{':
			depth++
		case ')', ']', '}':
			depth--
		case ',':
			if depth == 0 {
				out = append(out, s[last:i])
				last = i + 1
			}
		}
	}
	out = append(out, s[last:])
	return out
}

// parseHeader parses "func (recv) Name(params) (results)" with go/parser.
func parseHeader(h string) (string, []TypedName, []TypedName, error) {
	src := "package p\n" + strings.ReplaceAll(preprocessDots(h), "$", "__D_") + " {}\n"
	f, err := parser.ParseFile(fsetScratch, "", src, 0)
	if err != nil {
		return "", nil, nil, fmt.Errorf("contract header %q: %v", h, err)
	}
	fd := f.Decls[0].(*ast.FuncDecl)
	name := strings.ReplaceAll(fd.Name.Name, "__D_", "$")
	name = strings.ReplaceAll(name, "__DOT__", ".")
	name = strings.ReplaceAll(name, "__SL__", "/")
	var params, results []TypedName
	if fd.Recv != nil && len(fd.Recv.List) == 1 {
		r := fd.Recv.List[0]
		rn := "_recv"
		if len(r.Names) == 1 {
			rn = r.Names[0].Name
		}
		params = append(params, TypedName{rn, r.Type})
		switch t := r.Type.(type) {
		case *ast.StarExpr:
			name = "(*" + exprName(t.X) + ")." + name
		default:
			name = "(" + exprName(t) + ")." + name
		}
	}
	grab := func(fl *ast.FieldList) []TypedName {
		var out []TypedName
		if fl == nil {
			return nil
		}
		for i, f := range fl.List {
			if len(f.Names) == 0 {
				out = append(out, TypedName{fmt.Sprintf("_%d", i), f.Type})
			}
			for _, n := range f.Names {
				out = append(out, TypedName{n.Name, f.Type})
			}
		}
		return out
	}
	params = append(params, grab(fd.Type.Params)...)
	results = grab(fd.Type.Results)
	return name, params, results, nil
}

// preprocessDots lets extern headers name functions as pkg/path.Func or (*pkg.T).M.
func preprocessDots(h string) string {
	// only the function name position may contain dots: "func a/b.c.Name("
	re := regexp.MustCompile(`^func\s+([A-Za-z0-9_./\-]+)\(`)
	if m := re.FindStringSubmatch(h); m != nil {
		n := strings.ReplaceAll(strings.ReplaceAll(strings.ReplaceAll(m[1], ".", "__DOT__"), "/", "__SL__"), "-", "_")
		return "func " + n + "(" + h[len(m[0]):]
	}
	return h
}

func exprName(e ast.Expr) string {
	switch x := e.(type) {
	case *ast.Ident:
		return x.Name
	case *ast.SelectorExpr:
		return exprName(x.X) + "." + x.Sel.Name
	case *ast.StarExpr:
		return "*" + exprName(x.X)
	}
	return "?"
}

// scopeTo drops the clauses that are marked for other properties only: a clause tagged `[only C02]` (or
// `[only C02, C14]`) is neither assumed nor proved in the run of any other property. The clauses a run keeps
// are proved together in that run, so each run stands on its own.
func (cs *ContractSet) scopeTo(prop string, facet string) {
	keep := func(c Clause) bool {
		only := false
		for _, t := range c.Tags {
			if strings.HasPrefix(t, "only ") || t == "only" {
				only = true
			}
		}
		if !only {
			return true
		}
		for _, t := range c.Tags {
			n := strings.TrimSpace(strings.TrimPrefix(t, "only "))
			if n == prop || (facet != "" && n == prop+"."+facet) {
				return true
			}
		}
		return false
	}
	for _, c := range cs.Funcs {
		var es []Clause
		for _, e := range c.Ensures {
			if keep(e) {
				es = append(es, e)
			}
		}
		c.Ensures = es
		var as []HintAt
		for _, a := range c.Asserts {
			if keep(a.Clause) {
				as = append(as, a)
			}
		}
		c.Asserts = as
		for _, lc := range c.Loops {
			var inv []Clause
			for _, i := range lc.Invariants {
				if keep(i) {
					inv = append(inv, i)
				}
			}
			lc.Invariants = inv
		}
		c.dropDeadGhosts()
	}
}

// dropDeadGhosts removes the updates of ghost variables that no remaining clause reads (directly or through
// the update of a ghost variable that is read): they are specification-only state of clauses scoped away.
func (c *Contract) dropDeadGhosts() {
	if len(c.Ghosts) == 0 {
		return
	}
	var texts []string
	add := func(cs []Clause) {
		for _, x := range cs {
			texts = append(texts, x.Text)
		}
	}
	add(c.Requires)
	add(c.Ensures)
	for _, lc := range c.Loops {
		add(lc.Invariants)
		if lc.Decreases != nil {
			texts = append(texts, lc.Decreases.Text)
		}
	}
	for _, a := range c.Asserts {
		texts = append(texts, a.Clause.Text)
	}
	for _, m := range c.Modifies {
		texts = append(texts, m.Text)
	}
	live := map[string]bool{}
	local := map[string]bool{}
	for _, gv := range c.GhostVars {
		local[gv.Name] = true
	}
	for _, g := range c.Ghosts {
		if !local[g.Var] {
			// ghost globals are read by other contracts and by predicates
			live[g.Var] = true
		}
	}
	mentions := func(name string) bool {
		re := regexp.MustCompile(`(^|[^A-Za-z0-9_])` + regexp.QuoteMeta(name) + `($|[^A-Za-z0-9_])`)
		for _, t := range texts {
			if re.MatchString(t) {
				return true
			}
		}
		return false
	}
	for changed := true; changed; {
		changed = false
		for _, g := range c.Ghosts {
			if !live[g.Var] && mentions(g.Var) {
				live[g.Var] = true
				changed = true
				for _, g2 := range c.Ghosts {
					if g2.Var == g.Var {
						texts = append(texts, g2.Text[strings.Index(g2.Text, "=")+1:])
					}
				}
			}
		}
	}
	var gs []GhostUpdate
	for _, g := range c.Ghosts {
		if live[g.Var] {
			gs = append(gs, g)
		}
	}
	c.Ghosts = gs
}
