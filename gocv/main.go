package main

import (
	"encoding/json"
	"flag"
	"fmt"
	"os"
	"path/filepath"
	"sort"
	"strings"
	"time"

	"golang.org/x/tools/go/ssa"
)

// PropertyConfig describes one property check: which functions carry it.
type PropertyConfig struct {
	ID       string   `json:"id"`
	Title    string   `json:"title"`
	Modules  []string `json:"modules"`  // module dirs relative to the repo ("." or "specs-go" or "schema")
	Patterns []string `json:"patterns"` // package patterns to load
	Carriers []string `json:"carriers"` // "pkgpath.Key"
	Sweep    []string `json:"sweep"`    // package paths swept for safety obligations without contracts
	Kinds    []string `json:"kinds"`    // obligation kinds that count (empty: all)
	Timeout  int      `json:"timeout"`  // per-solver timeout of the quick tier in seconds (default 10)
	Facets   []string `json:"facets"`   // the carriers are verified once per facet, keeping the clauses tagged `only <id>.<facet>` of that facet
	Trusted  []string `json:"trusted_base"`
	Scenario string   `json:"scenario"`
}

type Config struct {
	Properties []PropertyConfig `json:"properties"`
}

func loadConfig(path string) (*Config, error) {
	data, err := os.ReadFile(path)
	if err != nil {
		return nil, err
	}
	var c Config
	if err := json.Unmarshal(data, &c); err != nil {
		return nil, fmt.Errorf("%s: %v", path, err)
	}
	return &c, nil
}

func main() {
	if len(os.Args) < 2 {
		fmt.Fprintln(os.Stderr, "usage: gocv verify|replay|funcs ...")
		os.Exit(2)
	}
	switch os.Args[1] {
	case "verify":
		os.Exit(cmdVerify(os.Args[2:]))
	case "funcs":
		os.Exit(cmdFuncs(os.Args[2:]))
	case "replay":
		os.Exit(cmdReplay(os.Args[2:]))
	default:
		fmt.Fprintln(os.Stderr, "unknown command", os.Args[1])
		os.Exit(2)
	}
}

func cmdFuncs(args []string) int {
	fs := flag.NewFlagSet("funcs", flag.ExitOnError)
	repo := fs.String("repo", "/repo", "repository")
	_ = fs.Parse(args)
	e := newEngine(*repo)
	if err := e.load("./pkg/...", "./internal/..."); err != nil {
		fmt.Fprintln(os.Stderr, err)
		return 3
	}
	for path := range e.spkgs {
		if !e.inRepo(e.spkgs[path].Pkg) {
			continue
		}
		for _, f := range e.allFuncs(path) {
			fmt.Printf("%s.%s\n", path, funcKey(f))
		}
	}
	return 0
}

type funcReport struct {
	Key         string   `json:"function"`
	Contract    bool     `json:"under_contract"`
	Obligations int      `json:"obligations"`
	Discharged  int      `json:"discharged"`
	Paths       int      `json:"paths"`
	OutOfSubset string   `json:"out_of_subset,omitempty"`
	Notes       []string `json:"notes,omitempty"`
	obls        []*Obligation
}

func cmdVerify(args []string) int {
	fs := flag.NewFlagSet("verify", flag.ExitOnError)
	repo := fs.String("repo", "/repo", "repository working tree")
	verif := fs.String("verif", "/verif", "verification directory")
	prop := fs.String("property", "", "property id")
	tier := fs.String("tier", "quick", "quick|thorough")
	only := fs.String("func", "", "verify only this function (debug)")
	verbose := fs.Bool("v", false, "verbose")
	timeout := fs.Int("timeout", 0, "per-solver timeout in seconds")
	failFast := fs.Bool("fail-fast", false, "stop racing undecided obligations once eight have failed (self-test runs)")
	seed := fs.Int("seed", 0, "seed")
	noEvidence := fs.Bool("no-evidence", false, "do not write the evidence file")
	scratch := fs.Bool("scratch", false, "selftest run against a scratch copy: write SMT files and replays under a scratch directory")
	_ = fs.Parse(args)
	t0 := time.Now()
	cfg, err := loadConfig(filepath.Join(*verif, "contracts", "properties.json"))
	if err != nil {
		fmt.Fprintln(os.Stderr, err)
		return 3
	}
	var pc *PropertyConfig
	for i := range cfg.Properties {
		if cfg.Properties[i].ID == *prop {
			pc = &cfg.Properties[i]
		}
	}
	if pc == nil {
		fmt.Fprintf(os.Stderr, "no configuration for property %q\n", *prop)
		return 3
	}
	tmo := 10
	if pc.Timeout > 0 {
		// properties whose instantiation-heavy obligations need the raced second stage get more room
		tmo = pc.Timeout
	}
	if *tier == "thorough" {
		tmo = 60
	}
	if *timeout > 0 {
		tmo = *timeout
	}
	run := &Run{prop: pc, tier: *tier, seed: *seed, verif: *verif, repo: *repo, verbose: *verbose, timeout: tmo, only: *only, failFast: *failFast}
	if *scratch {
		run.scratchDir = filepath.Join(*repo, ".gocv-scratch")
	}
	code := run.execute()
	run.wall = time.Since(t0).Seconds()
	if !*noEvidence && *only == "" {
		if err := run.writeEvidence(); err != nil {
			fmt.Fprintln(os.Stderr, "evidence:", err)
			return 3
		}
	}
	return code
}

// Run is one execution of a property check.
type Run struct {
	prop    *PropertyConfig
	tier    string
	seed    int
	verif   string
	repo    string
	verbose bool
	timeout int
	failFast bool
	only    string
	wall    float64

	engines          []*Engine
	units            []*Unit
	obls             []*Obligation
	reports          []funcReport
	failures         []*Obligation
	bindErrs         []*Obligation
	deadReturns      []string
	scratchDir       string
	known            []string
	violations       int
	machinery        []string
	notes            []string
	external         map[string]bool
	assumedContracts map[string]bool
	seenCommon       map[string]bool
}

func (r *Run) execute() int {
	mods := r.prop.Modules
	if len(mods) == 0 {
		mods = []string{"."}
	}
	r.external = map[string]bool{}
	r.assumedContracts = map[string]bool{}
	outDir := filepath.Join(r.verif, "out", r.prop.ID)
	if r.scratchDir != "" {
		outDir = filepath.Join(r.scratchDir, "out")
	}
	_ = os.RemoveAll(outDir)
	for _, m := range mods {
		e := newEngine(filepath.Join(r.repo, m))
		pats := r.prop.Patterns
		if len(pats) == 0 || m != "." {
			pats = []string{"./..."}
		}
		if err := e.load(pats...); err != nil {
			fmt.Fprintln(os.Stderr, "load:", err)
			r.machinery = append(r.machinery, "load: "+err.Error())
			fmt.Printf("VIOLATION property=%s replay=%s no-failing-input-found\n", r.prop.ID, r.writeBuildFailure(err))
			r.violations++
			return 1
		}
		r.engines = append(r.engines, e)
	}
	facets := r.prop.Facets
	if len(facets) == 0 {
		facets = []string{""}
	}
	for _, facet := range facets {
		if code := r.executeFacet(facet); code != 0 {
			return code
		}
	}
	return r.finish(outDir)
}

// executeFacet generates the obligations of all carriers with the contracts scoped to one facet of the property.
func (r *Run) executeFacet(facet string) int {
	for _, e := range r.engines {
		if err := e.loadContracts(filepath.Join(r.verif, "contracts", "external.gocv")); err != nil {
			fmt.Fprintln(os.Stderr, "contracts:", err)
			fmt.Printf("VIOLATION property=%s replay=%s no-failing-input-found\n", r.prop.ID, r.writeBuildFailure(err))
			r.violations++
			return 1
		}
		e.contracts.scopeTo(r.prop.ID, facet)
	}
	// carriers
	done := map[string]bool{}
	var todo []struct {
		fn    *ssa.Function
		c     *Contract
		sweep bool
		name  string
		eng   *Engine
	}
	for _, car := range r.prop.Carriers {
		i := strings.LastIndex(car, ".(")
		var pp, key string
		if i >= 0 {
			pp, key = car[:i], car[i+1:]
		} else {
			j := strings.LastIndex(car, ".")
			pp, key = car[:j], car[j+1:]
		}
		var fn *ssa.Function
		var eng *Engine
		for _, en := range r.engines {
			if f := en.lookupFunc(pp, key); f != nil {
				fn, eng = f, en
				break
			}
		}
		if fn == nil {
			r.bindingFailure(car, "carrier function not found in the current tree")
			continue
		}
		c := eng.contractFor(fn)
		if c == nil {
			r.bindingFailure(car, "carrier function has no contract")
			continue
		}
		done[car] = true
		todo = append(todo, struct {
			fn    *ssa.Function
			c     *Contract
			sweep bool
			name  string
			eng   *Engine
		}{fn, c, false, car, eng})
	}
	for _, sp := range r.prop.Sweep {
		for _, en := range r.engines {
			for _, fn := range en.allFuncs(sp) {
				name := sp + "." + funcKey(fn)
				if done[name] {
					continue
				}
				done[name] = true
				c := en.contractFor(fn)
				todo = append(todo, struct {
					fn    *ssa.Function
					c     *Contract
					sweep bool
					name  string
					eng   *Engine
				}{fn, c, true, name, en})
			}
		}
	}
	for _, t := range todo {
		if r.only != "" && !strings.HasSuffix(t.name, r.only) {
			continue
		}
		u, err := t.eng.verifyFunc(t.fn, t.c, t.sweep)
		rep := funcReport{Key: t.name, Contract: t.c != nil, Paths: u.paths, Notes: u.notes}
		if err != nil {
			rep.OutOfSubset = err.Error()
			if strings.HasPrefix(err.Error(), "binding:") {
				r.bindingFailure(t.name, err.Error())
			} else if !t.sweep {
				// a carrier that cannot be translated is an undischarged obligation
				r.bindingFailure(t.name, err.Error())
			}
			u.obls = nil
		}
		for k := range u.usedExternal {
			r.external[k] = true
		}
		for k := range u.usedContracts {
			r.assumedContracts[k] = true
		}
		r.units = append(r.units, u)
		var keep []*Obligation
		for _, o := range u.obls {
			if r.kindCounts(o, t.sweep) {
				keep = append(keep, o)
			}
		}
		if facet != "" {
			// clauses that do not belong to this facet alone are proved once, in the first facet that meets them
			if r.seenCommon == nil {
				r.seenCommon = map[string]bool{}
			}
			var mine []*Obligation
			for _, o := range keep {
				own := false
				for _, t := range o.Tags {
					if strings.TrimSpace(strings.TrimPrefix(t, "only ")) == r.prop.ID+"."+facet {
						own = true
					}
				}
				if !own {
					if r.seenCommon[o.Name] {
						continue
					}
					r.seenCommon[o.Name] = true
				}
				o.Name += "~" + facet
				mine = append(mine, o)
			}
			keep = mine
			rep.Key += " [" + facet + "]"
		}
		rep.Obligations = 0
		for _, o := range keep {
			if !o.Cover {
				rep.Obligations++
			}
		}
		rep.obls = keep
		r.obls = append(r.obls, keep...)
		r.reports = append(r.reports, rep)
	}
	if len(r.prop.Sweep) > 0 && len(r.prop.Kinds) == 0 {
		r.recursionCheck(todoFuncs(todo))
	}
	return 0
}

// finish discharges the obligations of all facets and reports.
func (r *Run) finish(outDir string) int {
	discharge(r.obls, solveOpts{outDir: outDir, timeoutS: r.timeout, all: r.tier == "thorough", jobs: 16, seed: r.seed, failFast: r.failFast})
	// results
	for i := range r.reports {
		n := 0
		for _, o := range r.reports[i].obls {
			if o.ok() && !o.Cover {
				n++
			}
		}
		r.reports[i].Discharged = n
	}
	kf := loadKnownFindings(filepath.Join(r.verif, "known-findings.txt"))
	sort.Slice(r.obls, func(i, j int) bool { return r.obls[i].Name < r.obls[j].Name })
	// vacuity: per function, the precondition must be satisfiable, at least one return reachable and, per
	// loop, the end of the body reachable on at least one of the covered paths
	retOK := map[string]bool{}
	retSeen := map[string]bool{}
	coverGroup := func(o *Obligation) string {
		if strings.HasPrefix(o.Clause, "loop ") {
			return o.Func + "|" + strings.SplitN(o.Clause, " body", 2)[0]
		}
		return o.Func
	}
	for _, o := range r.obls {
		if o.Cover && (strings.HasPrefix(o.Clause, "return") || strings.HasPrefix(o.Clause, "loop ")) {
			retSeen[coverGroup(o)] = true
			if o.ok() {
				retOK[coverGroup(o)] = true
			}
		}
	}
	for _, o := range r.obls {
		if o.Disagree {
			r.machinery = append(r.machinery, "solver disagreement on "+o.Name+": "+strings.Join(o.AllResults, " "))
		}
		if r.verbose && o.Millis > 2000 && !o.Cover {
			fmt.Fprintf(os.Stderr, "SLOW %s: %dms %s\n", o.Name, o.Millis, strings.Join(o.AllResults, " "))
		}
		if o.ok() {
			continue
		}
		if o.Cover && (strings.HasPrefix(o.Clause, "return") || strings.HasPrefix(o.Clause, "loop ")) {
			g := coverGroup(o)
			if retOK[g] {
				r.deadReturns = append(r.deadReturns, o.Name)
				continue
			}
			if retSeen[g] {
				// report the function (or loop) once
				retSeen[g] = false
			} else {
				continue
			}
		}
		r.failures = append(r.failures, o)
		if r.verbose {
			fmt.Fprintf(os.Stderr, "FAILED %s: %s (%s)\n   clause: %s\n   file: %s\n", o.Name, o.Result, strings.Join(o.AllResults, " "), o.Clause, o.File)
		}
	}
	r.report(kf)
	if len(r.machinery) > 0 {
		for _, m := range r.machinery {
			fmt.Fprintln(os.Stderr, "MACHINERY:", m)
		}
		if r.violations == 0 {
			return 3
		}
	}
	if r.violations > 0 {
		return 1
	}
	return 0
}

func (r *Run) kindCounts(o *Obligation, sweep bool) bool {
	if len(r.prop.Kinds) > 0 {
		for _, k := range r.prop.Kinds {
			if k == o.Kind {
				return true
			}
		}
		return false
	}
	if sweep {
		switch o.Kind {
		case "safety", "variant", "pre", "typeframe":
			return true
		}
		return false
	}
	if len(r.prop.Kinds) == 0 {
		return true
	}
	for _, k := range r.prop.Kinds {
		if k == o.Kind {
			return true
		}
	}
	return false
}

func (r *Run) bindingFailure(name, msg string) {
	o := &Obligation{Name: name + "#binding", Kind: "binding", Func: name, Clause: msg, Result: "binding", Goal: tFalse, Output: msg}
	o.Solver = "gocv"
	r.bindErrs = append(r.bindErrs, o)
}

func todoFuncs(todo []struct {
	fn    *ssa.Function
	c     *Contract
	sweep bool
	name  string
	eng   *Engine
}) []*ssa.Function {
	var out []*ssa.Function
	for _, t := range todo {
		out = append(out, t.fn)
	}
	return out
}

// recursionCheck: termination of the swept functions relies on loops only if the static call graph
// restricted to them has no cycle.
func (r *Run) recursionCheck(fns []*ssa.Function) {
	in := map[*ssa.Function]bool{}
	for _, f := range fns {
		in[f] = true
	}
	state := map[*ssa.Function]int{}
	var cyc []string
	var visit func(f *ssa.Function)
	visit = func(f *ssa.Function) {
		state[f] = 1
		for _, b := range f.Blocks {
			for _, ins := range b.Instrs {
				ci, ok := ins.(ssa.CallInstruction)
				if !ok {
					continue
				}
				callee := ci.Common().StaticCallee()
				if callee == nil || !in[callee] {
					continue
				}
				switch state[callee] {
				case 0:
					visit(callee)
				case 1:
					cyc = append(cyc, f.String()+" -> "+callee.String())
				}
			}
		}
		state[f] = 2
	}
	for _, f := range fns {
		if state[f] == 0 {
			visit(f)
		}
	}
	o := &Obligation{Name: "sweep#variant:no recursion", Kind: "variant", Func: "sweep", Goal: tTrue, Decided: true,
		Clause: fmt.Sprintf("the static call graph of the %d swept functions is acyclic (termination then only depends on loops)", len(fns)), Tags: []string{"C08"}}
	if len(cyc) == 0 {
		o.Result, o.Solver = "unsat", "gocv-callgraph"
	} else {
		o.Result, o.Solver, o.Output = "sat", "gocv-callgraph", strings.Join(cyc, "\n")
	}
	if len(r.units) > 0 {
		o.unit = r.units[0]
	}
	r.obls = append(r.obls, o)
}
