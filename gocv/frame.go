package main

import (
	"fmt"
	"go/ast"
	"go/token"
	"go/types"
	"strings"

	"golang.org/x/tools/go/ssa"
)

// frameLoc designates a set of heap locations of one component.
type frameLoc struct {
	Comp  string
	CSort string
	Match func(ref Term) Term // which references of the component are covered
	Ref   *Term               // exact reference when the set is a single location (for havoc by store)
	Cond  *Term               // the location is only in the frame when this holds (evaluated in the pre-state)
	Text  string
}

// lvalues evaluates one `modifies` entry into the component locations it covers.
func (c *EvalCtx) lvalues(text string) []frameLoc {
	text = strings.TrimSpace(text)
	if i := strings.Index(text, " if "); i >= 0 {
		ce, err := parseExpr(text[i+4:])
		if err != nil {
			c.fail("%v", err)
		}
		cond := c.eval(ce)
		ls := c.lvalues1(text[:i])
		for k := range ls {
			m := ls[k].Match
			ls[k].Match = func(x Term) Term { return and(cond, m(x)) }
			cc := cond
			if ls[k].Cond != nil {
				cc = and(cond, *ls[k].Cond)
			}
			ls[k].Cond = &cc
		}
		return ls
	}
	return c.lvalues1(text)
}

func (c *EvalCtx) lvalues1(text string) []frameLoc {
	u := c.u
	text = strings.TrimSpace(text)
	exact := func(comp, cs string, ref Term) frameLoc {
		r := ref
		return frameLoc{Comp: comp, CSort: cs, Ref: &r, Match: func(x Term) Term { return eq(x, r) }, Text: text}
	}
	allOf := func(t types.Type, ref Term) []frameLoc {
		var out []frameLoc
		var walk func(t types.Type, ref Term)
		walk = func(t types.Type, ref Term) {
			s := t.Underlying().(*types.Struct)
			for i := 0; i < s.NumFields(); i++ {
				ft := s.Field(i).Type()
				if _, ok := isStruct(ft); ok {
					walk(ft, u.subRef(t, i, ref))
					continue
				}
				if _, ok := ft.Underlying().(*types.Array); ok {
					continue
				}
				comp, cs, _ := u.fieldComp(t, i)
				out = append(out, exact(comp, cs, ref))
			}
		}
		walk(t, ref)
		return out
	}
	switch {
	case strings.HasPrefix(text, "&"):
		// the cell of a captured variable
		name := strings.TrimSpace(text[1:])
		for _, fv := range u.fn.FreeVars {
			if fv.Name() == name {
				if l, ok := c.st.locs[fv]; ok {
					return []frameLoc{exact(l.Comp, l.CSort, l.Ref)}
				}
			}
		}
		// a closure's contract evaluated at a call site: the cell is the closure's binding
		if cell, ok := c.cells[name]; ok {
			return []frameLoc{exact(cell.Comp, cell.CSort, cell.Ref)}
		}
		c.fail("modifies &%s: no captured variable of that name", name)
	case strings.HasPrefix(text, "allelems(") && strings.HasSuffix(text, ")"):
		// every backing array of slices of that type (the whole element component)
		te, err := parseExpr(text[9 : len(text)-1])
		if err != nil {
			c.fail("%v", err)
		}
		t := u.eng.resolveType(c.pkg, te)
		sl, ok := t.Underlying().(*types.Slice)
		if !ok {
			c.fail("allelems(T): T must be a slice type")
		}
		if _, isS := isStruct(sl.Elem()); isS {
			comps := map[string]string{}
			u.structComps(sl.Elem(), comps)
			var out []frameLoc
			for _, comp := range sortedKeys(comps) {
				out = append(out, frameLoc{Comp: comp, CSort: comps[comp], Text: text, Match: func(x Term) Term { return tTrue }})
			}
			return out
		}
		comp, cs := u.elemComp(sl.Elem())
		return []frameLoc{{Comp: comp, CSort: cs, Text: text, Match: func(x Term) Term { return tTrue }}}
	case strings.HasPrefix(text, "elems(") && strings.HasSuffix(text, ")"):
		e, err := parseExpr(text[6 : len(text)-1])
		if err != nil {
			c.fail("%v", err)
		}
		s := c.eval(e)
		if s.Sort != SSlice || s.T == nil {
			c.fail("elems() of non-slice %s", text)
		}
		et := s.T.Underlying().(*types.Slice).Elem()
		base := app("sbase", SInt, s)
		if _, ok := isStruct(et); ok {
			comps := map[string]string{}
			u.structComps(et, comps)
			u.elemRef(et, base, intLit(0))
			var out []frameLoc
			for _, comp := range sortedKeys(comps) {
				out = append(out, frameLoc{Comp: comp, CSort: comps[comp], Text: text,
					Match: func(x Term) Term { return eq(app("own", SInt, x), app("own", SInt, base)) }})
			}
			return out
		}
		comp, cs := u.elemComp(et)
		// a nil slice has no backing array that could be written
		l := exact(comp, cs, base)
		nz := not(eq(base, intLit(0)))
		m := l.Match
		l.Match = func(x Term) Term { return and(nz, m(x)) }
		l.Cond = &nz
		return []frameLoc{l}
	case strings.HasPrefix(text, "*"):
		e, err := parseExpr(text[1:])
		if err != nil {
			c.fail("%v", err)
		}
		v := c.eval(e)
		if v.T == nil {
			c.fail("modifies %s: untyped", text)
		}
		switch t := v.T.Underlying().(type) {
		case *types.Map:
			mc := u.mapComps(v.T)
			return []frameLoc{exact(mc.dom, mc.domS, v), exact(mc.val, mc.valS, v), exact(mc.card, arraySort(SInt, SInt), v)}
		case *types.Pointer:
			if _, ok := isStruct(t.Elem()); ok {
				return allOf(t.Elem(), v)
			}
			comp, cs := u.cellComp(t.Elem())
			return []frameLoc{exact(comp, cs, v)}
		}
		c.fail("modifies %s: not a map or pointer", text)
	case strings.HasSuffix(text, ".*"):
		e, err := parseExpr(strings.TrimSuffix(text, ".*"))
		if err != nil {
			c.fail("%v", err)
		}
		v := c.eval(e)
		t := unwrapRef(v.T)
		if p, ok := t.Underlying().(*types.Pointer); ok {
			t = p.Elem()
		}
		if _, ok := isStruct(t); !ok {
			c.fail("modifies %s: not a struct", text)
		}
		return allOf(t, mk(v.S, SInt))
	}
	e, err := parseExpr(text)
	if err != nil {
		c.fail("%v", err)
	}
	sel, ok := e.(*ast.SelectorExpr)
	if !ok {
		c.fail("modifies entry %q is not a location (x.f, x.*, *m, elems(s))", text)
	}
	v := c.eval(sel.X)
	if v.T == nil {
		c.fail("modifies %s: untyped operand", text)
	}
	path, ok := fieldPath(unwrapRef(v.T), sel.Sel.Name, 0)
	if !ok {
		c.fail("modifies %s: no such field", text)
	}
	cur := v
	for _, i := range path[:len(path)-1] {
		cur = c.step(cur, i)
	}
	last := path[len(path)-1]
	t := unwrapRef(cur.T)
	if p, ok := t.Underlying().(*types.Pointer); ok {
		t = p.Elem()
	}
	s := t.Underlying().(*types.Struct)
	ft := s.Field(last).Type()
	ref := mk(cur.S, SInt)
	if _, ok := isStruct(ft); ok {
		return allOf(ft, u.subRef(t, last, ref))
	}
	comp, cs, _ := u.fieldComp(t, last)
	return []frameLoc{exact(comp, cs, ref)}
}

// ---------- the frame of the function under verification ----------

type framePolicy struct {
	active        bool
	locs          []frameLoc
	preserves     []string // packages whose components may only be written at fresh references
	preservesOnly bool     // only those components are restricted (no modifies list, not pure)
}

// restricted: is a write to this component subject to a frame obligation?
func (u *Unit) restricted(comp string) bool {
	p := u.policy()
	if !p.active {
		return false
	}
	if p.preservesOnly {
		return pkgMatches(u.eng.compPkg[comp], p.preserves)
	}
	return true
}

func (u *Unit) policy() *framePolicy {
	if u.framePol != nil {
		return u.framePol
	}
	p := &framePolicy{}
	u.framePol = p
	c := u.contract
	if c == nil {
		return p
	}
	if !c.Pure && !c.HasModifies && len(c.Preserves) == 0 {
		return p
	}
	p.active = true
	p.preserves = c.Preserves
	p.preservesOnly = !c.Pure && !c.HasModifies
	ctx := u.newCtx(u.entry, nil)
	for _, m := range c.Modifies {
		if strings.HasPrefix(m.Text, "preserve ") {
			continue
		}
		p.locs = append(p.locs, ctx.lvalues(m.Text)...)
	}
	return p
}

func (u *Unit) frameTags() []string {
	if u.contract != nil && len(u.contract.FrameTags) > 0 {
		return u.contract.FrameTags
	}
	return nil
}

// frameCheck: a write to (comp, ref) must be inside the declared frame or hit a fresh object.
func (u *Unit) frameCheck(st *State, comp string, ref Term, pos token.Pos, what string) {
	p := u.policy()
	if !u.restricted(comp) {
		return
	}
	// a write through the nil reference cannot happen (it panics first), so it needs no permission
	allowed := []Term{lt(u.entry.alloc, app("own", SInt, ref)), eq(ref, intLit(0))}
	for _, l := range p.locs {
		if l.Comp == comp {
			allowed = append(allowed, l.Match(ref))
		}
	}
	u.oblige(st, "frame", pos, or(allowed...), what+" writes "+comp, u.frameTags())
}

func (u *Unit) frameStore(st *State, l Loc, pos token.Pos) {
	u.frameCheck(st, l.Comp, l.Ref, pos, "store")
}

func (u *Unit) frameStoreStruct(st *State, t types.Type, r Term, pos token.Pos) {
	p := u.policy()
	if !p.active {
		return
	}
	comps := map[string]string{}
	u.structComps(t, comps)
	any := false
	for c := range comps {
		if u.restricted(c) {
			any = true
		}
	}
	if !any {
		return
	}
	// one obligation for the whole struct: the root reference decides (sub-objects share own())
	allowedAll := []Term{lt(u.entry.alloc, app("own", SInt, r))}
	// or every leaf is individually in the frame
	var each []Term
	var walk func(t types.Type, ref Term)
	walk = func(t types.Type, ref Term) {
		s := t.Underlying().(*types.Struct)
		for i := 0; i < s.NumFields(); i++ {
			ft := s.Field(i).Type()
			if _, ok := isStruct(ft); ok {
				walk(ft, u.subRef(t, i, ref))
				continue
			}
			if _, ok := ft.Underlying().(*types.Array); ok {
				continue
			}
			comp, _, _ := u.fieldComp(t, i)
			var ok []Term
			for _, l := range p.locs {
				if l.Comp == comp {
					ok = append(ok, l.Match(ref))
				}
			}
			each = append(each, or(ok...))
		}
	}
	walk(t, r)
	allowedAll = append(allowedAll, and(each...))
	u.oblige(st, "frame", pos, or(allowedAll...), "store of whole "+types.TypeString(t, u.eng.qual), u.frameTags())
}

func (u *Unit) frameMapWrite(st *State, mc mapComps, m Term, pos token.Pos) {
	u.frameCheck(st, mc.dom, m, pos, "map update")
}

func (u *Unit) frameAppend(st *State, comp string, base, inplace, n Term, pos token.Pos) {
	p := u.policy()
	if !p.active {
		return
	}
	if strings.HasPrefix(comp, "ea:") {
		if p.preservesOnly && !pkgMatches(strings.TrimPrefix(comp, "ea:"), p.preserves) {
			return
		}
		// struct-valued elements: frame by ownership of the backing array
		allowed := []Term{not(inplace), lt(u.entry.alloc, app("own", SInt, base))}
		for _, l := range p.locs {
			if strings.HasPrefix(l.Text, "elems(") {
				allowed = append(allowed, l.Match(base))
			}
		}
		u.oblige(st, "frame", pos, or(allowed...), "in-place append writes backing array", u.frameTags())
		return
	}
	if !u.restricted(comp) {
		return
	}
	allowed := []Term{not(inplace), eq(n, intLit(0)), lt(u.entry.alloc, app("own", SInt, base))}
	for _, l := range p.locs {
		if l.Comp == comp {
			allowed = append(allowed, l.Match(base))
		}
	}
	u.oblige(st, "frame", pos, or(allowed...), "in-place append writes "+comp, u.frameTags())
}

func (u *Unit) frameCallAll(st *State, pos token.Pos, name string) {
	p := u.policy()
	if !p.active {
		return
	}
	u.oblige(st, "frame", pos, tFalse, "call to "+name+" (no contract) may write anything", u.frameTags())
}

func (u *Unit) frameAtReturn(st *State, x *ssa.Return, mkctx func() *EvalCtx) {}

// ---------- the frame of a callee at a call site ----------

func (u *Unit) havocFrame(st *State, pre *State, c *Contract, name string, bind func(*EvalCtx), pos token.Pos) {
	if !c.HasModifies && len(c.Preserves) > 0 {
		// the callee may write anything except (at existing references) components of the preserved packages
		p := u.policy()
		if p.active {
			ok := p.preservesOnly
			for _, want := range p.preserves {
				found := false
				for _, have := range c.Preserves {
					if have == want {
						found = true
					}
				}
				if want == "basic-data" && c.Extern {
					// assumed: third-party code does not write basic-typed cells, elements or maps that belong
					// to objects of the preserved packages (the model still forgets their content)
					found = true
					u.usedExternal["assumed: "+shortName(name)+" writes no basic-typed data owned by preserved objects"] = true
				}
				if !found {
					ok = false
				}
			}
			u.oblige(st, "frame", pos, boolLit(ok), "call to "+shortName(name)+" preserves only "+strings.Join(c.Preserves, ", "), u.frameTags())
		}
		u.havocAllExcept(st, c.Preserves)
		return
	}
	if !c.HasModifies {
		u.frameCallAll(st, pos, name)
		u.havocAll(st)
		return
	}
	// evaluate every location in the state before the call, then havoc them
	ctx := &EvalCtx{u: u, st: st, bound: map[string]bool{}}
	bind(ctx)
	var locs []frameLoc
	for _, m := range c.Modifies {
		if mentionsResult(m.Text, c.Results) {
			continue
		}
		locs = append(locs, ctx.lvalues(m.Text)...)
	}
	for _, l := range locs {
		u.havocLoc(st, l, pos, name)
	}
}

func mentionsResult(text string, results []string) bool {
	for _, r := range results {
		if r == "" || r == "_" {
			continue
		}
		if strings.HasPrefix(text, r+".") || strings.HasPrefix(text, "*"+r) || strings.HasPrefix(text, "elems("+r+")") || strings.HasPrefix(text, "elems("+r+".") {
			return true
		}
	}
	return false
}

func (u *Unit) havocLoc(st *State, l frameLoc, pos token.Pos, name string) {
	h := u.heapGet(st, l.Comp, l.CSort)
	if l.Ref != nil {
		if l.Cond != nil {
			s2 := st.clone()
			s2.assume(*l.Cond)
			u.frameCheck(s2, l.Comp, *l.Ref, pos, "call to "+shortName(name))
			// the obligation generated in the clone belongs to this unit already
			v := u.fresh(st, "havoc_"+l.Comp, arrayElemSort(l.CSort), nil)
			// named: an ite-term can occur in no E-matching pattern
			u.heapSet(st, l.Comp, u.define(st, l.Comp, ite(*l.Cond, store(h, *l.Ref, v), h)))
			return
		}
		u.frameCheck(st, l.Comp, *l.Ref, pos, "call to "+shortName(name))
		v := u.fresh(st, "havoc_"+l.Comp, arrayElemSort(l.CSort), nil)
		u.heapSet(st, l.Comp, store(h, *l.Ref, v))
		return
	}
	// a set of references: new component agrees with the old one outside the set
	p := u.policy()
	if p.active {
		sk := u.fresh(st, "anyref", SInt, nil)
		s2 := st.clone()
		s2.assume(l.Match(sk))
		u.frameCheck(s2, l.Comp, sk, pos, "call to "+shortName(name))
	}
	nh := u.fresh(st, l.Comp, l.CSort, nil)
	st.assume(mk(fmt.Sprintf("(forall ((r Int)) (! (=> (not %s) (= (select %s r) (select %s r))) :pattern ((select %s r))))", l.Match(mk("r", SInt)).S, nh.S, h.S, nh.S), SBool))
	u.heapSet(st, l.Comp, nh)
}

func (u *Unit) havocResultFrame(st *State, c *Contract, bind func(*EvalCtx), rs []Term, resTypes []types.Type) {
	if !c.HasModifies {
		return
	}
	for _, m := range c.Modifies {
		if !mentionsResult(m.Text, c.Results) {
			continue
		}
		ctx := &EvalCtx{u: u, st: st, bound: map[string]bool{}}
		bind(ctx)
		for i, n := range c.Results {
			t := rs[i]
			t.T = resTypes[i]
			ctx.vars[n] = t
		}
		for _, l := range ctx.lvalues(m.Text) {
			if l.Ref == nil {
				continue
			}
			h := u.heapGet(st, l.Comp, l.CSort)
			v := u.fresh(st, "havoc_"+l.Comp, arrayElemSort(l.CSort), nil)
			u.heapSet(st, l.Comp, store(h, *l.Ref, v))
		}
	}
}

// callModifies: which components a call inside a loop may change (for the loop havoc).
func (u *Unit) callModifies(common *ssa.CallCommon, ms *modSet) {
	if b, ok := common.Value.(*ssa.Builtin); ok {
		switch b.Name() {
		case "append":
			ms.allocates = true
			if sl, ok := common.Args[0].Type().Underlying().(*types.Slice); ok {
				if _, isS := isStruct(sl.Elem()); isS {
					u.structComps(sl.Elem(), ms.comps)
				} else {
					c, s := u.elemComp(sl.Elem())
					ms.comps[c] = s
				}
			}
		case "copy":
			if sl, ok := common.Args[0].Type().Underlying().(*types.Slice); ok {
				c, s := u.elemComp(sl.Elem())
				ms.comps[c] = s
			}
		case "delete":
			mc := u.mapComps(common.Args[0].Type())
			ms.comps[mc.dom], ms.comps[mc.card] = mc.domS, arraySort(SInt, SInt)
		}
		return
	}
	ms.allocates = true
	c, callee, _ := u.calleeContract(common)
	if callee == nil && !common.IsInvoke() {
		if mc2, ok := u.resolveCellCall(common); ok {
			callee = mc2.Fn.(*ssa.Function)
			c = u.eng.contractFor(callee)
		}
	}
	if c == nil && callee == nil && !common.IsInvoke() {
		// call through a function value: the union over the possible targets
		cands := u.eng.funcCandidates(common.Signature())
		allPure := len(cands) > 0
		for _, f := range cands {
			fc := u.eng.contractFor(f)
			if fc == nil || !fc.Pure || len(f.FreeVars) > 0 {
				allPure = false
			}
		}
		if allPure {
			return
		}
		// targets with declared frames: the union of their components
		allMods := len(cands) > 0
		for _, f := range cands {
			fc := u.eng.contractFor(f)
			if fc == nil || (!fc.Pure && !fc.HasModifies) {
				allMods = false
			}
		}
		if allMods {
			for _, f := range cands {
				fc := u.eng.contractFor(f)
				if fc.Pure {
					continue
				}
				scratch := &State{vals: map[ssa.Value]Term{}, locs: map[ssa.Value]Loc{}, tuples: map[ssa.Value][]Term{}, heap: map[string]Term{},
					iters: map[ssa.Value]*iterState{}, ghost: map[string]Term{}, alloc: mk("0", SInt), scratch: true}
				ctx := &EvalCtx{u: u, st: scratch, bound: map[string]bool{}, vars: map[string]Term{}}
				ctx.pkg = calleePkg(f)
				for i, p := range fc.Params {
					if i < len(f.Params) {
						ctx.vars[p] = mkT("dummy", u.sortOf(f.Params[i].Type()), f.Params[i].Type())
					}
				}
				ok := func() (ok bool) {
					defer func() {
						if r := recover(); r != nil {
							if _, isEval := r.(evalErr); isEval {
								ok = false
								return
							}
							panic(r)
						}
					}()
					for _, m := range fc.Modifies {
						for _, l := range ctx.lvalues(m.Text) {
							ms.comps[l.Comp] = l.CSort
						}
					}
					return true
				}()
				if !ok {
					ms.all = true
				}
			}
			return
		}
	}
	if c == nil {
		ms.all = true
		// a call without contract may change every ghost global (see havocCall)
		for _, gv := range u.eng.contracts.GhostGlobals {
			ms.ghosts[gv.Name] = ""
		}
		return
	}
	// ghost state the callee declares to write (also for callees that leave the heap alone)
	for _, g := range c.GhostWrites {
		ms.ghosts[g] = ""
	}
	if c.Pure {
		return
	}
	if !c.HasModifies && len(c.Preserves) > 0 {
		ms.addPreserving(c.Preserves)
		return
	}
	if !c.HasModifies {
		ms.all = true
		return
	}
	// evaluate the modifies entries on dummy arguments to learn the components
	scratch := &State{vals: map[ssa.Value]Term{}, locs: map[ssa.Value]Loc{}, tuples: map[ssa.Value][]Term{}, heap: map[string]Term{},
		iters: map[ssa.Value]*iterState{}, ghost: map[string]Term{}, alloc: mk("0", SInt), scratch: true}
	ctx := &EvalCtx{u: u, st: scratch, bound: map[string]bool{}, vars: map[string]Term{}}
	if callee != nil {
		ctx.pkg = calleePkg(callee)
	} else if c.Pkg != "" {
		ctx.pkg = u.eng.pkgByPath(c.Pkg)
	}
	var ptypes []types.Type
	if common.IsInvoke() {
		ptypes = append(ptypes, common.Value.Type())
	}
	for _, a := range common.Args {
		ptypes = append(ptypes, a.Type())
	}
	if callee != nil {
		ptypes = nil
		for _, p := range callee.Params {
			ptypes = append(ptypes, p.Type())
		}
	}
	for i, p := range c.Params {
		if i < len(ptypes) {
			ctx.vars[p] = mkT("dummy", u.sortOf(ptypes[i]), ptypes[i])
		}
	}
	sig := common.Signature()
	for i, r := range c.Results {
		if i < sig.Results().Len() {
			ctx.vars[r] = mkT("dummy", u.sortOf(sig.Results().At(i).Type()), sig.Results().At(i).Type())
		}
	}
	var mcDyn *ssa.MakeClosure
	if mc, ok := common.Value.(*ssa.MakeClosure); ok {
		mcDyn = mc
	} else if mc2, ok := u.resolveCellCall(common); ok {
		mcDyn = mc2
	}
	if mc := mcDyn; mc != nil {
		fn := mc.Fn.(*ssa.Function)
		for _, fv := range fn.FreeVars {
			if pt, ok := fv.Type().(*types.Pointer); ok {
				ctx.vars[fv.Name()] = mkT("dummy", u.sortOf(pt.Elem()), pt.Elem())
			}
		}
		for name, cell := range u.capturedCells(fn.Parent()) {
			if _, clash := ctx.vars[name]; clash {
				continue
			}
			if pt, ok := cell.Type().(*types.Pointer); ok {
				if _, isS := isStruct(pt.Elem()); !isS {
					ctx.vars[name] = mkT("dummy", u.sortOf(pt.Elem()), pt.Elem())
				}
			}
		}
	}
	for _, m := range c.Modifies {
		for _, l := range ctx.lvalues(m.Text) {
			ms.comps[l.Comp] = l.CSort
		}
	}
	for _, g := range c.GhostWrites {
		ms.ghosts[g] = ""
	}
}

// preservedTerm: the components of the given packages are unchanged (w.r.t. function entry) at all
// references that existed at entry.
func (u *Unit) preservedTerm(st *State, pkgs []string) Term {
	if st.epoch > 0 {
		for _, p := range pkgs {
			found := false
			for _, k := range st.keepPkgs {
				if k == p {
					found = true
				}
			}
			if !found {
				return tFalse
			}
		}
	}
	var cs []Term
	for _, comp := range sortedKeys(st.heap) {
		if !pkgMatches(u.eng.compPkg[comp], pkgs) {
			continue
		}
		t := st.heap[comp]
		if t.S == comp+"!0" {
			continue
		}
		cs = append(cs, mk(fmt.Sprintf("(forall ((r Int)) (! (=> (<= (own r) %s) (= (select %s r) (select %s!0 r))) :pattern ((select %s r))))", u.entry.alloc.S, t.S, comp, t.S), SBool))
	}
	return and(cs...)
}
